"""Mutant and benign-twin recipes for the self-test (E8).  Each recipe is an
exact-once text edit on the repository's current source."""
from .selftest import M, MM, T, TT

SEQ = "otel_to_pv/sequence_otel.py"
SQL = "sql_data_holder/sql_dataholder.py"
DM = "sql_data_holder/data_model.py"
O2P = "otel_to_pv/otel_to_pv.py"
P2P = "pv_to_puml/pv_to_puml.py"
EV = "tel2puml/events.py"
UT = "tel2puml/utils.py"
P2T = "tel2puml/pv_to_tel.py"
PG = "tel2puml/puml_graph.py"
TY = "tel2puml/tel2puml_types.py"
DI = "pv_to_puml/data_ingestion.py"
DL = "loop_detection/detect_loops.py"
SGL = "loop_detection/sub_graph_of_loop.py"
CUG = "loop_detection/calculate_updated_graph.py"
LEM = "loop_detection/loop_event_methods.py"
NODE = "walk_puml_graph/node.py"
CNG = "walk_puml_graph/create_node_graph_from_event_graph.py"
WALK = "walk_puml_graph/walk_puml_logic_graph.py"
NUP = "walk_puml_graph/node_update.py"
LD = "tel2puml/logic_detection.py"
O2PUML = "tel2puml/otel_to_puml.py"
JDS = "json_data_source/json_datasource.py"
JCF = "json_data_source/json_config.py"
SIM = "tel2puml/pv_event_simulator.py"
MAIN = "tel2puml/__main__.py"
BASE = "data_holders/base.py"
ING = "otel_to_pv/ingest_otel_data.py"

# ===================================================================== C16
M("C16", "d1-revert", P2T,
  "unix_timestamp = int(dt.replace(microsecond=0).timestamp())",
  "unix_timestamp = int(dt.timestamp() * 1e6) / 1e6", "R16.1 R16.2",
  "fractional seconds re-enter the seconds term (D1 shape)")
M("C16", "float-ns", P2T,
  "unix_nano = unix_timestamp * 10**9 + dt.microsecond * 10**3",
  "unix_nano = int(dt.timestamp() * 1e9)", "R16.2",
  "fractional float scaled to ns and truncated")
M("C16", "micro-scale", P2T, "dt.microsecond * 10**3", "dt.microsecond * 10**2",
  "R16.1", "microseconds at the wrong scale")
M("C16", "no-utc-parse", P2T,
  """.replace(
        tzinfo=timezone.utc
    )""", "", "R16.2", "parsed datetime left naive: local-time instant")
M("C16", "no-utc-format", UT, "datetime.fromtimestamp(unix_nano / 1e9, tz=UTC)",
  "datetime.fromtimestamp(unix_nano / 1e9)", "R16.3",
  "ns -> string rendered in local time")
M("C16", "wrong-divisor", UT, "unix_nano / 1e9, tz=UTC", "unix_nano / 1e6, tz=UTC",
  "R16.3", "ns divided by 1e6")
M("C16", "no-fraction", UT, '"%Y-%m-%dT%H:%M:%S.%fZ"', '"%Y-%m-%dT%H:%M:%SZ"',
  "R16.4", "format drops the microseconds")
M("C16", "day-first", UT, '"%Y-%m-%dT%H:%M:%S.%fZ"', '"%d-%m-%YT%H:%M:%S.%fZ"',
  "R16.4", "format is not most-significant-first")
T("C16", "twin-intdiv", P2T,
  "unix_timestamp = int(dt.replace(microsecond=0).timestamp())",
  "whole = dt.replace(microsecond=0)\n    unix_timestamp = int(whole.timestamp())",
  "intermediate variable")
M("C16", "int-of-float-timestamp", P2T,
  "unix_timestamp = int(dt.replace(microsecond=0).timestamp())",
  "unix_timestamp = int(dt.timestamp())", "R16.1 R16.2",
  "int() truncates toward zero: one second late for instants before 1970 "
  "with a fraction (seed C16-g; was wrongly listed as a benign twin while "
  "the quantifier started at the epoch)")
T("C16", "twin-floor-ts", P2T,
  "unix_timestamp = int(dt.replace(microsecond=0).timestamp())",
  "unix_timestamp = int(dt.timestamp() // 1)",
  "floor of the float timestamp")
T("C16", "twin-1000", P2T, "dt.microsecond * 10**3", "dt.microsecond * 1000",
  "equivalent constant")
T("C16", "twin-1e9-int", UT, "unix_nano / 1e9, tz=UTC", "unix_nano / 10**9, tz=UTC",
  "integer divisor")

# ===================================================================== C08
M("C08", "d2-revert", SEQ,
  "if max_timestamp < group_first_event.start_timestamp:",
  "if ordered_groups_async[-1][-1].end_timestamp < group_first_event.start_timestamp:",
  "R8.1", "compare with the last appended span's end (D2)")
M("C08", "max-last-only", SEQ,
  """        max_timestamp = max(
            max_timestamp, max(event.end_timestamp for event in group)
        )""",
  "        max_timestamp = max(max_timestamp, group[-1].end_timestamp)",
  "R8.1", "running max takes only the last member of a group")
M("C08", "max-init-last", SEQ,
  "max_timestamp = max(event.end_timestamp for event in ordered_groups[0])",
  "max_timestamp = ordered_groups[0][-1].end_timestamp", "R8.1",
  "initial maximum is the last member's end")
M("C08", "max-cond", SEQ,
  """            ordered_groups_async[-1].extend(group)
        max_timestamp = max(""",
  """            ordered_groups_async[-1].extend(group)
        if len(group) > 1:
          max_timestamp = max(""", "R8.1", "accumulator updated conditionally")
M("C08", "flip-chain", SEQ,
  "if max_timestamp < group_first_event.start_timestamp:",
  "if max_timestamp > group_first_event.start_timestamp:", "R8.1",
  "direction of the chain test flipped")
M("C08", "d3-revert", SEQ,
  """    groups = [
        group for group in async_groups.values() if group
    ] + non_async_groups""",
  "    groups = list(async_groups.values()) + non_async_groups", "R8.2",
  "empty configured groups returned (D3)")
M("C08", "yield-cond", SEQ,
  """    for event_id, event in event_id_to_event_map.items():
        yield PVEvent(""",
  """    for event_id, event in event_id_to_event_map.items():
      if event.child_event_ids is not None:
        yield PVEvent(""", "R8.3", "PV event emitted only for some spans")
M("C08", "ts-start", SEQ, "unix_nano_to_pv_string(event.end_timestamp)",
  "unix_nano_to_pv_string(event.start_timestamp)", "R8.3",
  "timestamp from the start time")
M("C08", "appname", SEQ, "applicationName=event.application_name",
  "applicationName=event.job_name", "R8.3", "field from the wrong source")
M("C08", "prev-in-inner", SEQ,
  """                )
            )
        previous_event_ids = [group_event.event_id for group_event in group]""",
  """                )
            )
            previous_event_ids = [group_event.event_id]""", "R8.4",
  "previous ids rebound inside the member loop (parallel members chained)")
M("C08", "prev-filter", SEQ,
  "previous_event_ids = [group_event.event_id for group_event in group]",
  "previous_event_ids = [group_event.event_id for group_event in group[-1:]]",
  "R8.4", "only the last member becomes a predecessor")
M("C08", "sort-end", SEQ, "sorted(group, key=lambda x: x.start_timestamp)",
  "sorted(group, key=lambda x: x.end_timestamp)", "R8.5",
  "members sorted by end time")
M("C08", "sort-rev", SEQ, "key=lambda x: x[0].start_timestamp,",
  "key=lambda x: x[0].start_timestamp, reverse=True,", "R8.5",
  "groups ordered descending")
M("C08", "async-swap", SEQ,
  """    if async_flag:
        event_groups = sequence_groups_of_otel_events_asynchronously(
            event_groups
        )
    else:
        event_groups = order_groups_by_start_timestamp(event_groups)""",
  """    if not async_flag:
        event_groups = sequence_groups_of_otel_events_asynchronously(
            event_groups
        )
    else:
        event_groups = order_groups_by_start_timestamp(event_groups)""",
  "R8.5", "sync/async switch inverted")
M("C08", "rename-notin", SEQ,
  """            child_event.event_type
            in event_type_map_information.child_event_types""",
  """            child_event.event_type
            not in event_type_map_information.child_event_types""", "R8.6",
  "rename when NO listed child is present")
M("C08", "rename-all", SEQ,
  """        if event.event_type in event_types_map_information:
            update_event_type_based_on_children(
                event, otel_events_job,
                event_types_map_information[event.event_type]
            )""",
  """        for key in event_types_map_information:
            update_event_type_based_on_children(
                event, otel_events_job,
                event_types_map_information[key]
            )""", "R8.6", "rename applied to spans whose type is not a key")
M("C08", "flag-drop", SEQ,
  """        yield sequence_otel_event_job(
            job, async_flag, event_to_async_group_map
        )""",
  """        yield sequence_otel_event_job(
            job, False, event_to_async_group_map
        )""", "R8.7", "async flag not forwarded")
M("C08", "cfg-swap", O2P,
  "async_event_groups.get(job_name, None)", "async_event_groups.get(None, None)",
  "R8.7", "async groups not looked up per workflow")
T("C08", "twin-hoist", SEQ,
  "if max_timestamp < group_first_event.start_timestamp:",
  "starts_later = max_timestamp < group_first_event.start_timestamp\n        if starts_later:",
  "decision hoisted into a variable")
T("C08", "twin-flip-cmp", SEQ,
  "if max_timestamp < group_first_event.start_timestamp:",
  "if group_first_event.start_timestamp > max_timestamp:", "operands swapped")
T("C08", "twin-rename", SEQ, "@all:max_timestamp", "latest_end",
  "accumulator renamed")
T("C08", "twin-len", SEQ, "group for group in async_groups.values() if group",
  "group for group in async_groups.values() if len(group) > 0",
  "other truthiness idiom")

# ===================================================================== C15
M("C15", "d5-revert", SQL,
  """        session.execute(sa.delete(JobHash))
        session.commit()
    temp_table""", """        session.commit()
    temp_table""", "R15.1", "job hashes of earlier runs never cleared (D5)")
M("C15", "d5-cond", SQL,
  """    with sql_data_holder.session as session:
        session.execute(sa.delete(JobHash))""",
  """    with sql_data_holder.session as session:
      if batch_size > 1:
        session.execute(sa.delete(JobHash))""", "R15.1",
  "hash rows cleared only sometimes")
M("C15", "d5-late", SQL,
  """    with sql_data_holder.session as session:
        session.execute(sa.delete(JobHash))
        session.commit()
    temp_table = create_temp_table_of_root_nodes_in_time_window(
        time_window, sql_data_holder
    )
    start_row = 0""",
  """    temp_table = create_temp_table_of_root_nodes_in_time_window(
        time_window, sql_data_holder
    )
    start_row = 0""", "R15.1", "delete removed (late variant)")
M("C15", "d6-revert-a", SQL,
  """            res = session.execute(stmt_3)
            self._delete_orphaned_node_associations(session)""",
  "            res = session.execute(stmt_3)", "R15.2",
  "links of inconsistent jobs left behind (D6)")
M("C15", "d6-revert-b", SQL,
  """            res = session.execute(stmt_2)
            self._delete_orphaned_node_associations(session)""",
  "            res = session.execute(stmt_2)", "R15.2",
  "links of out-of-window jobs left behind (D6)")
M("C15", "d6-parent-side", SQL, "NODE_ASSOCIATION.c.child_id.not_in(",
  "NODE_ASSOCIATION.c.parent_id.not_in(", "R15.2",
  "orphan removal keyed on the parent side")
M("C15", "d6-in", SQL, "NODE_ASSOCIATION.c.child_id.not_in(",
  "NODE_ASSOCIATION.c.child_id.in_(", "R15.2", "deletes the live links")
M("C15", "temp-persistent", SQL, 'prefixes=["TEMPORARY"],', "", "R15.3",
  "root table created as a persistent table")
M("C15", "raw-save", SQL,
  """        if len(self.node_models_to_save) >= self.batch_size:
            self.commit_batched_unique_data_to_database()""",
  """        if len(self.node_models_to_save) >= self.batch_size:
            self.commit_batched_data_to_database()""", "R15.4",
  "threshold flush bypasses the duplicate wrapper")
M("C15", "drop-all", SQL,
  "        self.base.metadata.create_all(self.engine)",
  "        self.base.metadata.drop_all(self.engine)\n        self.base.metadata.create_all(self.engine)",
  "R15.5", "opening the store resets it")
M("C15", "append-mode", O2P, 'with open(file_path, "w") as f:',
  'with open(file_path, "a") as f:', "R15.6", "PV files appended to")
M("C15", "excl-mode", EV, 'with open(file_path, "w") as file:',
  'with open(file_path, "x") as file:', "R15.6",
  "model file opened exclusively")
T("C15", "twin-notexists", SQL,
  """                NODE_ASSOCIATION.c.child_id.not_in(
                    sa.select(NodeModel.event_id)
                )""",
  """                not_(NODE_ASSOCIATION.c.child_id.in_(
                    sa.select(NodeModel.event_id)
                ))""", "not_(in_) spelling of not_in")
T("C15", "twin-inline", SQL,
  """            res = session.execute(stmt_2)
            self._delete_orphaned_node_associations(session)""",
  """            res = session.execute(stmt_2)
            session.execute(
                sa.delete(NODE_ASSOCIATION).where(
                    NODE_ASSOCIATION.c.child_id.not_in(
                        sa.select(NodeModel.event_id)
                    )
                )
            )""", "helper inlined at one call site")

# ===================================================================== C11
M("C11", "skip-noingest", O2P,
  """    tqdm.write("Removing inconsistent jobs...")
    data_holder.remove_inconsistent_jobs()""",
  """    tqdm.write("Removing inconsistent jobs...")
    if ingest_data:
        data_holder.remove_inconsistent_jobs()""", "R11.1",
  "cleaning skipped on the no-ingest arm")
M("C11", "clean-late", O2P,
  """    data_holder.update_job_names_by_root_span()
    tqdm.write("Finished performing data cleaning operations.")""",
  """    tqdm.write("Finished performing data cleaning operations.")""",
  "R11.1", "name propagation dropped")
M("C11", "by-event", SQL,
  "stmt_3 = sa.delete(NodeModel).where(NodeModel.job_id.in_(stmt_2))",
  "stmt_3 = sa.delete(NodeModel).where(NodeModel.event_id.in_(stmt_2))",
  "R11.2", "deletes spans, not traces")
M("C11", "join-parent", SQL,
  "NODE_ASSOCIATION.c.child_id == NodeModel.event_id,",
  "NODE_ASSOCIATION.c.parent_id == NodeModel.event_id,", "R11.3",
  "trace ids taken through the parent side")
M("C11", "lost-not", SQL,
  """                    not_(
                        sa.exists().where(
                            NODE_ASSOCIATION.c.parent_id == NodeModel.event_id
                        )
                    )""",
  """                    sa.exists().where(
                        NODE_ASSOCIATION.c.parent_id == NodeModel.event_id
                    )""", "R11.3", "selects parents that exist")
M("C11", "win-and", SQL,
  """                            & (NodeModel.start_timestamp >= time_window[0])
                        )
                        | (
                            (NodeModel.end_timestamp <= time_window[1])
                            & (NodeModel.end_timestamp >= time_window[0])
                        )
                    )
                    > 0
                )
            )
            stmt_2 = sa.delete(NodeModel)""",
  """                            & (NodeModel.start_timestamp >= time_window[0])
                        )
                        & (
                            (NodeModel.end_timestamp <= time_window[1])
                            & (NodeModel.end_timestamp >= time_window[0])
                        )
                    )
                    > 0
                )
            )
            stmt_2 = sa.delete(NodeModel)""", "R11.4 R11.6",
  "start AND end inside instead of OR")
M("C11", "win-strict", SQL,
  """                            (NodeModel.end_timestamp <= time_window[1])
                            & (NodeModel.end_timestamp >= time_window[0])
                        )
                    )
                    > 0
                )
            )
            stmt_2 = sa.delete(NodeModel)""",
  """                            (NodeModel.end_timestamp < time_window[1])
                            & (NodeModel.end_timestamp >= time_window[0])
                        )
                    )
                    > 0
                )
            )
            stmt_2 = sa.delete(NodeModel)""", "R11.4 R11.6",
  "upper bound exclusive for the end time")
M("C11", "win-keep", SQL, "not_(NodeModel.job_id.in_(stmt))",
  "NodeModel.job_id.in_(stmt)", "R11.4", "deletes the in-window traces")
M("C11", "buffer-sec", BASE, "time_buffer * 60 * 1000000000",
  "time_buffer * 1000000000", "R11.4", "buffer in seconds, not minutes")
M("C11", "buffer-sign", BASE,
  """    return (
        data_holder.min_timestamp + time_buffer_in_nanoseconds,
        data_holder.max_timestamp - time_buffer_in_nanoseconds,
    )""",
  """    return (
        data_holder.min_timestamp - time_buffer_in_nanoseconds,
        data_holder.max_timestamp + time_buffer_in_nanoseconds,
    )""", "R11.4", "buffer widens the window")
M("C11", "name-from-any", SQL,
  """            stmt_1 = sa.select(NodeModel.job_id, NodeModel.job_name).filter(
                NodeModel.parent_event_id.is_(None)
            )""",
  """            stmt_1 = sa.select(NodeModel.job_id, NodeModel.job_name).filter(
                NodeModel.parent_event_id.is_not(None)
            )""", "R11.5", "name taken from a non-root span")
M("C11", "d6-revert", SQL,
  """            res = session.execute(stmt_3)
            self._delete_orphaned_node_associations(session)""",
  "            res = session.execute(stmt_3)", "R11.7", "orphan links")
T("C11", "twin-reorder", O2P,
  """    tqdm.write("Removing inconsistent jobs...")
    data_holder.remove_inconsistent_jobs()
    # remove jobs totally within time buffer zones
    tqdm.write("Removing jobs outside of time window...")
    data_holder.remove_jobs_outside_of_time_window()""",
  """    tqdm.write("Removing jobs outside of time window...")
    data_holder.remove_jobs_outside_of_time_window()
    tqdm.write("Removing inconsistent jobs...")
    data_holder.remove_inconsistent_jobs()""",
  "cleaning steps reordered among themselves")
TT("C11", "twin-between", [
    (SQL, """                        (
                            (NodeModel.start_timestamp <= time_window[1])
                            & (NodeModel.start_timestamp >= time_window[0])
                        )
                        | (
                            (NodeModel.end_timestamp <= time_window[1])
                            & (NodeModel.end_timestamp >= time_window[0])
                        )
                    )
                    > 0
                )
            )
            stmt_2 = sa.delete(NodeModel)""",
     """                        NodeModel.start_timestamp.between(
                            time_window[0], time_window[1])
                        | NodeModel.end_timestamp.between(
                            time_window[0], time_window[1])
                    )
                    > 0
                )
            )
            stmt_2 = sa.delete(NodeModel)"""),
    (SQL, """                    (
                        (NodeModel.start_timestamp <= time_window[1])
                        & (NodeModel.start_timestamp >= time_window[0])
                    )
                    | (
                        (NodeModel.end_timestamp <= time_window[1])
                        & (NodeModel.end_timestamp >= time_window[0])
                    )
                )
                > 0
            )
            .subquery()""",
     """                    NodeModel.start_timestamp.between(
                        time_window[0], time_window[1])
                    | NodeModel.end_timestamp.between(
                        time_window[0], time_window[1])
                )
                > 0
            )
            .subquery()""")], "both window predicates written with between()")
T("C11", "twin-flip-ge", SQL,
  """            stmt_2 = sa.delete(NodeModel).where(
                not_(NodeModel.job_id.in_(stmt))
            )""",
  """            stmt_2 = sa.delete(NodeModel).where(
                NodeModel.job_id.not_in(stmt)
            )""", "not_in spelling")

# ===================================================================== C09
M("C09", "hash-id", SQL, "    string_to_hash = node.event_type\n",
  "    string_to_hash = node.event_type + node.event_id\n", "R9.1",
  "span id hashed")
M("C09", "hash-time", SQL, "    string_to_hash = node.event_type\n",
  "    string_to_hash = node.event_type + str(node.start_timestamp)\n", "R9.1",
  "timestamp hashed")
M("C09", "no-sort", SQL,
  """        string_to_hash += "".join(
            sorted(
                compute_graph_hash_from_event_ids(child, node_to_children)
                for child in children
            )
        )""",
  """        string_to_hash += "".join(
            list(
                compute_graph_hash_from_event_ids(child, node_to_children)
                for child in children
            )
        )""", "R9.2", "sibling order not normalised")
M("C09", "fetch-limit", SQL,
  """            .filter(NodeModel.job_id.in_(job_ids))
            .all()
        )
    return nodes""",
  """            .filter(NodeModel.job_id.in_(job_ids))
            .limit(1000)
            .all()
        )
    return nodes""", "R9.3", "batch fetch truncated")
M("C09", "child-by-job", SQL,
  "            parent_event_id = node.parent_event_id\n",
  "            parent_event_id = node.job_id\n", "R9.3",
  "children grouped under the wrong key")
M("C09", "stride", SQL, "        start_row += batch_size\n",
  "        start_row += batch_size + 1\n", "R9.4", "paging skips a root per page")
M("C09", "slice-width", SQL, ".slice(start_row, start_row + batch_size)",
  ".slice(start_row, start_row + batch_size - 1)", "R9.4",
  "page one row short")
M("C09", "one-page", SQL,
  """        compute_graph_hashes_for_batch(root_nodes, sql_data_holder)
        start_row += batch_size""",
  """        compute_graph_hashes_for_batch(root_nodes, sql_data_holder)
        start_row += batch_size
        if start_row > 10 * batch_size:
            break""", "R9.4", "stops after ten pages")
M("C09", "group-hash-only", SQL,
  """        stmt = sa.select(JobHash.job_name, JobHash.job_id).group_by(
            JobHash.job_name, JobHash.job_hash
        )""",
  """        stmt = sa.select(JobHash.job_name, JobHash.job_id).group_by(
            JobHash.job_hash
        )""", "R9.5", "one representative per hash across workflows")
M("C09", "roots-all", SQL,
  """            .join(stmt, NodeModel.job_id == stmt.c.job_id)
            .where(NodeModel.parent_event_id.is_(None))""",
  """            .join(stmt, NodeModel.job_id == stmt.c.job_id)""", "R9.6",
  "every span is a candidate root")
M("C09", "win-flip", SQL,
  """                    (
                        (NodeModel.start_timestamp <= time_window[1])
                        & (NodeModel.start_timestamp >= time_window[0])
                    )
                    | (""",
  """                    (
                        (NodeModel.start_timestamp <= time_window[0])
                        & (NodeModel.start_timestamp >= time_window[1])
                    )
                    | (""", "R9.6", "bounds swapped for the start time")
M("C09", "d5-revert", SQL,
  """        session.execute(sa.delete(JobHash))
        session.commit()
    temp_table""", """        session.commit()
    temp_table""", "R9.7", "stale hash rows take part in the selection")
M("C09", "hash-of-other", SQL,
  "job_hash=compute_graph_hash_from_event_ids(node, node_to_children),",
  "job_hash=compute_graph_hash_from_event_ids(root_nodes[0], node_to_children),",
  "R9.8", "every row carries the first root's hash")
M("C09", "no-filter", O2P,
  "job_name_group_streams = data_holder.stream_data(job_name_to_job_ids_map)",
  "job_name_group_streams = data_holder.stream_data(None)", "R9.9",
  "selection never reaches the stream")
T("C09", "twin-set-sort", SQL,
  """            sorted(
                compute_graph_hash_from_event_ids(child, node_to_children)
                for child in children
            )""",
  """            sorted([
                compute_graph_hash_from_event_ids(child, node_to_children)
                for child in children
            ])""", "sorted over a list comprehension")
T("C09", "twin-not", SQL, "        if not root_nodes:\n            break",
  "        if len(root_nodes) == 0:\n            break", "other emptiness test")

# ===================================================================== C10
M("C10", "no-unique", DM,
  "event_id: Mapped[str] = mapped_column(String, unique=True, nullable=False)",
  "event_id: Mapped[str] = mapped_column(String, nullable=False)", "R10.1",
  "span id not unique")
M("C10", "raw-save", SQL,
  """        if len(self.node_models_to_save) >= self.batch_size:
            self.commit_batched_unique_data_to_database()""",
  """        if len(self.node_models_to_save) >= self.batch_size:
            self.commit_batched_data_to_database()""", "R10.2 R10.5",
  "threshold flush bypasses the wrapper")
M("C10", "raw-exit", SQL,
  """        super().__exit__(exc_type, exc_val, exc_tb)
        self.commit_batched_unique_data_to_database()""",
  """        super().__exit__(exc_type, exc_val, exc_tb)
        self.commit_batched_data_to_database()""", "R10.2 R10.4",
  "final flush bypasses the wrapper")
M("C10", "swallow", SQL,
  """        except IntegrityError:
            LOGGER.warning(
                "IntegrityError: Likely trying to insert duplicate data."
                " Checking and filtering duplicates and trying again."
            )
            self.check_and_filter_non_unique_nodes_and_associations()""",
  """        except IntegrityError:
            LOGGER.warning(
                "IntegrityError: Likely trying to insert duplicate data."
                " Checking and filtering duplicates and trying again."
            )""", "R10.3", "duplicate batch dropped silently")
M("C10", "no-reraise", SQL,
  """        except (IntegrityError, OperationalError, Exception) as e:
            self.session.rollback()
            raise e""",
  """        except (IntegrityError, OperationalError, Exception) as e:
            self.session.rollback()""", "R10.3",
  "raw commit swallows the integrity error")
M("C10", "no-flush", SQL,
  """        super().__exit__(exc_type, exc_val, exc_tb)
        self.commit_batched_unique_data_to_database()
        self.session.close()""",
  """        super().__exit__(exc_type, exc_val, exc_tb)
        self.session.close()""", "R10.4", "last partial batch never written")
M("C10", "close-first", SQL,
  """        self.commit_batched_unique_data_to_database()
        self.session.close()""",
  """        self.session.close()
        self.commit_batched_unique_data_to_database()""", "R10.4",
  "session closed before the flush")
M("C10", "no-with", ING,
  """        with self.data_holder:
            for data in self.data_source:
                self.data_holder.save_data(data)""",
  """        for data in self.data_source:
            self.data_holder.save_data(data)""", "R10.4",
  "save_data outside the holder's context")
M("C10", "rel-cond", SQL,
  """        self.node_models_to_save.append(node_model)
        self.add_node_relations(otel_event)""",
  """        self.node_models_to_save.append(node_model)
        if otel_event.child_event_ids is None:
            self.add_node_relations(otel_event)""", "R10.5",
  "link recorded only for some spans")
M("C10", "reset-early", SQL,
  """            self.batch_insert_node_models()
            self.batch_insert_node_associations()
            # Reset batch
            self.node_models_to_save = []""",
  """            self.batch_insert_node_models()
            self.node_relationships_to_save = []
            self.batch_insert_node_associations()
            # Reset batch
            self.node_models_to_save = []""", "R10.5",
  "links reset before they are inserted")
M("C10", "keep-last", SQL,
  "        for node in self.node_models_to_save:\n            event_id_num",
  "        for node in reversed(self.node_models_to_save):\n            event_id_num",
  "R10.6", "last occurrence wins")
M("C10", "keep-dups", SQL, "            if event_id_num == 0:\n",
  "            if event_id_num >= 0:\n", "R10.6", "duplicates kept")
M("C10", "no-db-filter", SQL,
  """        filtered_nodes = [
            node for node in filtered_nodes
            if node.event_id not in existing_event_ids
        ]""", "        filtered_nodes = list(filtered_nodes)", "R10.6",
  "spans already stored are kept in the retry")
M("C10", "links-all", SQL,
  """        for node in filtered_nodes:
            self._update_node_relations_from_node(node)""",
  """        for node in self.node_models_to_save + filtered_nodes:
            self._update_node_relations_from_node(node)""", "R10.6",
  "links rebuilt from more than the survivors")
M("C10", "no-reset-links", SQL,
  """        self.node_models_to_save = filtered_nodes
        self.node_relationships_to_save = []""",
  """        self.node_models_to_save = filtered_nodes""", "R10.6",
  "pending links not reset before the rebuild")
M("C10", "link-swap", SQL,
  """                    "parent_id": node.parent_event_id,
                    "child_id": node.event_id,""",
  """                    "parent_id": node.event_id,
                    "child_id": node.parent_event_id,""", "R10.7",
  "rebuilt links reversed")
M("C10", "field-cross", SQL, "            job_id=otel_event.job_id,\n",
  "            job_id=otel_event.job_name,\n", "R10.7", "stored field crossed")
T("C10", "twin-seen-set", SQL,
  """        for node in self.node_models_to_save:
            event_id_num = event_id_duplicates.get(node.event_id, 0)
            if event_id_num == 0:
                filtered_nodes.append(node)
            event_id_duplicates[node.event_id] = event_id_num + 1""",
  """        for node in self.node_models_to_save:
            event_id_num = event_id_duplicates.get(node.event_id, 0)
            if event_id_num < 1:
                filtered_nodes.append(node)
            event_id_duplicates[node.event_id] = event_id_num + 1""",
  "other spelling of 'not seen yet'")
T("C10", "twin-exc-name", SQL,
  """        except (IntegrityError, OperationalError, Exception) as e:
            self.session.rollback()
            raise e""",
  """        except (IntegrityError, OperationalError, Exception):
            self.session.rollback()
            raise""", "bare re-raise")

# ===================================================================== C12
M("C12", "order-id-only", SQL,
  "query.order_by(NodeModel.job_name, NodeModel.job_id).yield_per(",
  "query.order_by(NodeModel.job_id).yield_per(", "R12.1",
  "ordered by trace id only")
M("C12", "order-none", SQL,
  """        query = query.order_by(NodeModel.job_name, NodeModel.job_id).yield_per(
            self.batch_size
        )""",
  """        query = query.yield_per(
            self.batch_size
        )""", "R12.1", "no ordering")
M("C12", "key-swap", SQL,
  "job_name_group, key=lambda x: x.job_id", "job_name_group, key=lambda x: x.event_id",
  "R12.1", "inner groups keyed by span id")
M("C12", "list-outer", O2P,
  "        for job_name, job_id_streams in job_name_group_streams\n    )",
  "        for job_name, job_id_streams in list(job_name_group_streams)\n    )",
  "R12.2", "outer level materialised")
M("C12", "list-streams", O2P,
  "    for pv_event_stream in pv_event_streams:\n",
  "    for pv_event_stream in list(pv_event_streams):\n", "R12.2",
  "traces materialised before their events are read")
M("C12", "sorted-jobs", SEQ, "    for job_group in job_id_streams:\n",
  "    for job_group in sorted(job_id_streams, key=id):\n", "R12.2",
  "groups materialised by sorted()")
M("C12", "yield-outside", SQL,
  """        with self.session as session:
            job_name_event_generator = self.stream_job_name_batches(
                session, job_name_to_job_ids_map, filter_job_names
            )

            for job_name, job_name_group in groupby(
                job_name_event_generator, key=lambda x: x.job_name
            ):
                # For each job_name, create a generator of generator of
                # OtelEvents grouped by job_id
                otel_event_gen = (
                    (event for event in job_id_group)
                    for _, job_id_group in groupby(
                        job_name_group, key=lambda x: x.job_id
                    )
                )
                yield job_name, otel_event_gen""",
  """        with self.session as session:
            job_name_event_generator = self.stream_job_name_batches(
                session, job_name_to_job_ids_map, filter_job_names
            )

        for job_name, job_name_group in groupby(
            job_name_event_generator, key=lambda x: x.job_name
        ):
                otel_event_gen = (
                    (event for event in job_id_group)
                    for _, job_id_group in groupby(
                        job_name_group, key=lambda x: x.job_id
                    )
                )
                yield job_name, otel_event_gen""", "R12.3",
  "rows consumed outside the session scope")
M("C12", "filter-or", SQL,
  """                (NodeModel.job_name == job_name)
                & (NodeModel.job_id.in_(job_ids))""",
  """                (NodeModel.job_name == job_name)
                | (NodeModel.job_id.in_(job_ids))""", "R12.4",
  "pair joined by OR")
M("C12", "filter-and", SQL, "query = query.filter(or_(*job_filters))",
  "query = query.filter(sa.and_(*job_filters))", "R12.4",
  "pairs joined by AND")
M("C12", "join-swap", DM,
  """        primaryjoin=(event_id == NODE_ASSOCIATION.c.parent_id),
        secondaryjoin=(event_id == NODE_ASSOCIATION.c.child_id),""",
  """        primaryjoin=(event_id == NODE_ASSOCIATION.c.child_id),
        secondaryjoin=(event_id == NODE_ASSOCIATION.c.parent_id),""",
  "R12.5", "children relationship reversed")
M("C12", "child-filter", SQL,
  "child_event_ids=[child.event_id for child in node.children],",
  "child_event_ids=[child.event_id for child in node.children[:1]],",
  "R12.5", "only the first child reported")
M("C12", "limit", SQL,
  "query.order_by(NodeModel.job_name, NodeModel.job_id).yield_per(",
  "query.order_by(NodeModel.job_name, NodeModel.job_id).limit(100000).yield_per(",
  "R12.4", "stream truncated")
T("C12", "twin-and", SQL,
  """                (NodeModel.job_name == job_name)
                & (NodeModel.job_id.in_(job_ids))""",
  """                sa.and_(NodeModel.job_id.in_(job_ids),
                        NodeModel.job_name == job_name)""", "and_() spelling")

# ===================================================================== C13
M("C13", "no-try", JDS,
  """                    try:
                        yield OTelEvent(**record)
                        self.events_pbar.update(1)
                    except ValidationError as e:
                        self.event_error_pbar.update(1)
                        LOGGER.warning(""",
  """                    if True:
                        yield OTelEvent(**record)
                        self.events_pbar.update(1)
                    else:
                        e = None
                        self.event_error_pbar.update(1)
                        LOGGER.warning(""", "R13.1",
  "validation error aborts the stream")
M("C13", "reraise", JDS,
  """                    except ValidationError as e:
                        self.event_error_pbar.update(1)""",
  """                    except ValidationError as e:
                        self.event_error_pbar.update(1)
                        if self.config.json_per_line:
                            raise""", "R13.1", "handler re-raises")
M("C13", "handler-break", JDS,
  """                    except ValidationError as e:
                        self.event_error_pbar.update(1)""",
  """                    except ValidationError as e:
                        self.event_error_pbar.update(1)
                        break""", "R13.1", "first invalid record ends the file")
M("C13", "try-outside", JDS,
  """                for record in generate_records_from_compiled_jq(
                    data, self.compiled_jq
                ):
                    try:
                        yield OTelEvent(**record)
                        self.events_pbar.update(1)
                    except ValidationError as e:""",
  """                try:
                  for record in generate_records_from_compiled_jq(
                    data, self.compiled_jq
                  ):
                        yield OTelEvent(**record)
                        self.events_pbar.update(1)
                except ValidationError as e:
                    if True:""", "R13.1", "try wraps the record loop")
M("C13", "key-cross", JCF, '            "job_id": self.job_id,\n',
  '            "job_id": self.job_name,\n', "R13.2", "mapping keys crossed")
M("C13", "key-drop", JCF, '            "application_name": self.application_name,\n',
  "", "R13.2", "mapping key dropped")
M("C13", "both-ok", JCF,
  """        if self.field_mapping is not None and self.jq_query is not None:
            raise ValueError(
                "Only one of field_mapping or jq_query should be provided"
            )""", "", "R13.3", "both field_mapping and jq_query accepted")
M("C13", "skip-file", JDS, "                self.current_file_index += 1\n",
  "                self.current_file_index += 2\n", "R13.4",
  "every other file skipped")
M("C13", "line-cond", JDS,
  "                yield json.loads(line, strict=False)\n",
  "                if line.strip().startswith('{'):\n                    yield json.loads(line, strict=False)\n",
  "R13.5", "some lines dropped silently")
T("C13", "twin-exc-tuple", JDS, "except ValidationError as e:",
  "except (ValidationError,) as e:", "tuple form of the handler")

# ===================================================================== C14
M("C14", "two-learners", O2PUML,
  """            pv_streams = wrap_generator_with_tqdm_start_and_end_messages(
                pv_files_to_pv_streams(**pv_to_puml_options),
                "Ingesting PV files and streaming PVEvents...",
                "All PV files ingested and all PVEvents streamed.",
            )""",
  """            pv_streams = wrap_generator_with_tqdm_start_and_end_messages(
                pv_files_to_pv_streams(**pv_to_puml_options),
                "Ingesting PV files and streaming PVEvents...",
                "All PV files ingested and all PVEvents streamed.",
            )
            pv_streams_to_puml_files(pv_streams, output_file_directory)
            return""", "R14.1", "pv2puml arm gets its own learner call")
M("C14", "no-models", O2PUML,
  """        output_file_directory,
        events_to_jobs_map,
        global_options.get("output_puml_models", False),""",
  """        output_file_directory,
        None,
        global_options.get("output_puml_models", False),""", "R14.1",
  "loaded models dropped")
M("C14", "load-key", SIM, "jobId=(pv_dict[mapping_config.jobId]),",
  "jobId=(pv_dict[mapping_config.jobName]),", "R14.2",
  "loader reads jobId through the jobName mapping")
M("C14", "load-literal", SIM, "timestamp=(pv_dict[mapping_config.timestamp]),",
  'timestamp=(pv_dict["timestamp"]),', "R14.2",
  "loader ignores the mapping for one field")
M("C14", "config-missing", TY,
  '    applicationName: str = "applicationName"\n    jobName: str = "jobName"\n    eventType: str = "eventType"\n\n\nclass PVEvent(',
  '    applicationName: str = "applicationName"\n    jobName: str = "jobName"\n\n\nclass PVEvent(',
  "R14.2", "mapping config lacks a PVEvent key")
M("C14", "default-not-id", TY, '    jobName: str = "jobName"\n    eventType: str = "eventType"',
  '    jobName: str = "job_name"\n    eventType: str = "eventType"', "R14.2",
  "default mapping is not the identity")
M("C14", "save-drop", O2P,
  """                    for key, value in pv_event.items()
                }""",
  """                    for key, value in pv_event.items()
                    if key != "applicationName"
                }""", "R14.2", "saver drops a key under a custom mapping")
M("C14", "count-zero", O2P, "    file_no = 1\n", "    file_no = 0\n", "R14.3",
  "files numbered from 0")
M("C14", "count-static", O2P, "        file_no += 1\n", "        file_no += 0\n",
  "R14.3", "every trace overwrites the same file")
M("C14", "validator-gone", TY,
  """        if self.command == "otel2puml" and self.save_events:
            raise ValueError(
                "save_events must be False if otel2puml is selected."
            )""", "", "R14.4", "otel2puml + save_events accepted")
M("C14", "no-early-return", O2PUML,
  """                tqdm.write(
                    "Otel to PV conversion done. Exiting as no further steps"
                    " were requested."
                )
                return""",
  """                tqdm.write(
                    "Otel to PV conversion done. Exiting as no further steps"
                    " were requested."
                )""", "R14.4", "otel2pv falls through to the learner")
M("C14", "mc-drop-save", O2P,
  """                output_file_directory,
                mapping_config,
            )

    return pv_event_gen""",
  """                output_file_directory,
                None,
            )

    return pv_event_gen""", "R14.5", "mapping config not passed to the saver")
M("C14", "mc-drop-load", P2P,
  """        pv_stream_sequence = pv_job_files_to_event_sequence_streams(
            file_list, mapping_config
        )""",
  """        pv_stream_sequence = pv_job_files_to_event_sequence_streams(
            file_list
        )""", "R14.5", "mapping config not passed to the loader")
T("C14", "twin-kwargs", P2P,
  """        pv_stream_sequence = pv_job_files_to_event_sequence_streams(
            file_list, mapping_config
        )""",
  """        pv_stream_sequence = pv_job_files_to_event_sequence_streams(
            file_paths=file_list, mapping_config=mapping_config
        )""", "keyword arguments")

# ===================================================================== C04
M("C04", "d4-revert", EV,
  """            event.update_event_sets(
                [
                    eventSet.eventType
                    for eventSet in eventSetList
                    for _ in range(eventSet.count)
                ]
            )""",
  """            event.event_sets.add(
                EventSet(
                    [
                        eventSet.eventType
                        for eventSet in eventSetList
                        for _ in range(eventSet.count)
                    ]
                )
            )""", "R4.1", "loader bypasses the stale flag (D4)")
M("C04", "flag-drop", EV,
  """            if event_type not in event_set
        }

        self._update_since_logic_gate_tree = True""",
  """            if event_type not in event_set
        }""", "R4.1", "removal does not invalidate the cache")
M("C04", "flag-cond", EV,
  """        self.event_sets.add(EventSet(events))

        self._update_since_logic_gate_tree = True""",
  """        self.event_sets.add(EventSet(events))

        if len(self.event_sets) == 1:
            self._update_since_logic_gate_tree = True""", "R4.1",
  "flag set only for the first set")
M("C04", "helper-write", LEM,
  """    for event_list in loop_out_events_list:
        loop_event.update_event_sets(event_list)""",
  """    for event_list in loop_out_events_list:
        loop_event.event_sets.add(EventSet(event_list))""", "R4.1",
  "new direct writer outside the class")
M("C04", "getter-always", EV,
  """            self._logic_gate_tree = calculate_logic_gates(self.event_sets)
            self._update_since_logic_gate_tree = False""",
  """            self._logic_gate_tree = calculate_logic_gates(self.event_sets)""",
  "R4.1", "getter never clears the flag")
M("C04", "reader-cross", EV,
  "        for eventSetList in eventInput.incomingEventSets:\n            event.in_event_sets.add(",
  "        for eventSetList in eventInput.incomingEventSets:\n            event.event_sets.add(",
  "R4.2 R4.1", "incoming sets loaded as outgoing")
M("C04", "writer-cross", EV,
  """            incomingEventSets=[
                event_set.to_event_set_count_input_list()
                for event_set in self.in_event_sets
            ],""",
  """            incomingEventSets=[
                event_set.to_event_set_count_input_list()
                for event_set in self.event_sets
            ],""", "R4.2", "outgoing sets written as incoming")
M("C04", "count-lost", EV,
  """                        for eventSet in eventSetList
                        for _ in range(eventSet.count)
                    ]
                )
            )
        events[eventInput.eventType] = event""",
  """                        for eventSet in eventSetList
                    ]
                )
            )
        events[eventInput.eventType] = event""", "R4.2",
  "multiplicity not restored")
M("C04", "key-nocount", EV,
  "        return tuple((k, self[k]) for k in sorted(self))",
  "        return tuple(k for k in sorted(self))", "R4.3",
  "value key ignores the counts")
M("C04", "key-order", EV,
  "        return tuple((k, self[k]) for k in sorted(self))",
  "        return tuple((k, self[k]) for k in self)", "R4.3",
  "value key depends on insertion order")
M("C04", "truthy-rebind", DI,
  """    if events is None:
        events = {}
    for graph_solution in graph_solutions:""",
  """    if not events:
        events = {}
    for graph_solution in graph_solutions:""", "R4.4",
  "empty dict detached: -om saves an empty model on a first run")
M("C04", "save-other", P2P,
  "            save_events_to_file(job_name, events, model_file_path)",
  "            save_events_to_file(job_name, {}, model_file_path)", "R4.4",
  "a different dictionary is saved")
M("C04", "no-copy", P2P,
  "    events_for_calculations = deepcopy(events)\n",
  "    events_for_calculations = events\n", "R4.5",
  "derived phases mutate the model that is saved")
M("C04", "copy-shallow", P2P,
  """    initial_events_graph = create_graph_from_events(
        events_for_calculations.values()
    )""",
  """    initial_events_graph = create_graph_from_events(
        events.values()
    )""", "R4.5", "graph built from the model itself")
M("C04", "om-cross", MAIN,
  "        output_puml_models=global_obj.output_puml_models,",
  "        output_puml_models=bool(global_obj.input_puml_models),", "R4.6",
  "-om derived from -im")
T("C04", "twin-reader-method", EV,
  """            event.in_event_sets.add(
                EventSet(
                    [
                        eventSet.eventType
                        for eventSet in eventSetList
                        for _ in range(eventSet.count)
                    ]
                )
            )""",
  """            event.update_in_event_sets(
                [
                    eventSet.eventType
                    for eventSet in eventSetList
                    for _ in range(eventSet.count)
                ]
            )""", "incoming sets loaded through the method")
T("C04", "twin-copy-name", P2P, "@all:events_for_calculations", "events_copy",
  "local renamed")

# ===================================================================== C07
M("C07", "skip-singletons", DL,
  """        if len(scc_nodes) == 1:
            node = list(scc_nodes)[0]
            if not graph.has_edge(node, node):
                continue""",
  """        if len(scc_nodes) == 1:
            continue""", "R7.1", "self-loops are left in the graph")
M("C07", "skip-pairs", DL, "        if len(scc_nodes) == 1:\n",
  "        if len(scc_nodes) <= 2:\n", "R7.1",
  "two-event cycles without self edges skipped")
M("C07", "no-recursion", DL, "        sub_graph = detect_loops(sub_graph)\n", "",
  "R7.2", "nested loops stay inside the body")
M("C07", "graph-not-carried", DL,
  """        graph = calculate_updated_graph_with_loop_event(
            loop, loop_event, graph
        )""",
  """        calculate_updated_graph_with_loop_event(
            loop, loop_event, graph.copy()
        )""", "R7.3", "the rewritten graph is discarded")
M("C07", "no-remove", CUG,
  "    graph.remove_nodes_from(loop.loop_events)\n", "", "R7.3",
  "loop events stay in the parent graph (duplicated)")
M("C07", "no-deepcopy", SGL,
  "    sub_loop, sub_graph = deepcopy((loop, graph))",
  "    sub_loop, sub_graph = loop, graph", "R7.4 R7.5",
  "body carved out of the parent's own objects")
M("C07", "shallow-copy", SGL,
  "    sub_loop, sub_graph = deepcopy((loop, graph))",
  "    sub_loop, sub_graph = loop, graph.copy()", "R7.4 R7.5",
  "graph copied shallowly, events shared")
M("C07", "no-edge-removal", SGL,
  "    remove_loop_edges(sub_loop, sub_graph)\n", "", "R7.5",
  "loop-back edges stay in the body (still cyclic)")
M("C07", "no-prune", SGL,
  "    sub_graph.remove_nodes_from(nodes_without_path_back)\n", "", "R7.5",
  "outside nodes stay in the body (duplicated)")
M("C07", "edges-ignored", SGL,
  "    remove_event_edges_and_event_sets(loop.edges_to_remove, graph)\n", "",
  "R7.5", "identified loop-back edges never removed")
M("C07", "uids-swapped", LEM,
  "    loop_event.start_uid = start_event.uid\n    loop_event.end_uid = end_event.uid",
  "    loop_event.start_uid = end_event.uid\n    loop_event.end_uid = start_event.uid",
  "R7.6", "entry/exit uids swapped")
T("C07", "twin-hoist", DL,
  """        if len(scc_nodes) == 1:
            node = list(scc_nodes)[0]
            if not graph.has_edge(node, node):
                continue""",
  """        single = len(scc_nodes) == 1
        if single:
            node = list(scc_nodes)[0]
            acyclic = not graph.has_edge(node, node)
            if acyclic:
                continue""", "tests hoisted into variables")
T("C07", "twin-and", DL,
  """        if len(scc_nodes) == 1:
            node = list(scc_nodes)[0]
            if not graph.has_edge(node, node):
                continue""",
  """        node = list(scc_nodes)[0]
        if len(scc_nodes) == 1 and not graph.has_edge(node, node):
            continue""", "nested tests merged with and")

# ===================================================================== C05
M("C05", "endfork", PG, '(("end fork",), -1, 1)', '(("endfork",), -1, 1)',
  "R5.2", "closer spelled as a synonym the corpus never shows")
M("C05", "pair-mix", PG, '("END", "OR"): (("end split",), -1, 1),',
  '("END", "OR"): (("end fork",), -1, 1),', "R5.2",
  "split closed by end fork")
M("C05", "map-missing", PG, '    ("PATH", "OR"): (("split again",), 0, 1),\n', "",
  "R5.1", "emission entry missing")
M("C05", "unbalanced", PG, '("END", "AND"): (("end fork",), -1, 1),',
  '("END", "AND"): (("end fork",), 0, 1),', "R5.1", "indent never returns")
M("C05", "path-cross", PG,
  "else PUMLOperatorNode(PUMLOperatorNodes.PATH_AND, x)",
  "else PUMLOperatorNode(PUMLOperatorNodes.PATH_OR, x)", "R5.1",
  "fork separated by split again")
M("C05", "op-cross", TY,
  """    AND = (
        PUMLOperatorNodes.START_AND,
        PUMLOperatorNodes.END_AND,""",
  """    AND = (
        PUMLOperatorNodes.START_AND,
        PUMLOperatorNodes.END_OR,""", "R5.1", "AND closed by the OR terminator")
M("C05", "kill-word", PG, "blocks = [f\"{' ' * indent}detach\"]",
  "blocks = [f\"{' ' * indent}stop\"]", "R5.2 R5.6", "unknown keyword")
M("C05", "frame-order", PG,
  '            2 * tab_size * " " + "end group", tab_size * " " + "}", "@enduml"',
  '            tab_size * " " + "}", 2 * tab_size * " " + "end group", "@enduml"',
  "R5.3", "partition closed before the group")
M("C05", "no-end-removal", PG,
  "    nested_graph.remove_dummy_start_event_nodes()\n    nested_graph.remove_dummy_end_event_nodes()\n",
  "    nested_graph.remove_dummy_start_event_nodes()\n", "R5.4",
  "dummy end events written as activities")
M("C05", "no-recursion", PG,
  """    nested_graph.remove_dummy_end_event_nodes()
    for node in nested_graph.nodes:
        if isinstance(node, PUMLEventNode):
            if node.sub_graph is not None:
                remove_dummy_start_and_end_events_from_nested_graphs(
                    node.sub_graph
                )""",
  """    nested_graph.remove_dummy_end_event_nodes()""", "R5.4",
  "dummies inside loop bodies survive")
M("C05", "remove-cond", P2P,
  "    remove_dummy_start_and_end_events_from_nested_graphs(puml_graph)\n",
  "    if events is None:\n        remove_dummy_start_and_end_events_from_nested_graphs(puml_graph)\n",
  "R5.4", "dummy removal only without a model")
M("C05", "keep-default", P2P,
  """    puml_name: str = "default_name",
    keep_dummy_events: bool = False,
    events: dict[str, Event] | None = None,
) -> str:""",
  """    puml_name: str = "default_name",
    keep_dummy_events: bool = True,
    events: dict[str, Event] | None = None,
) -> str:""", "R5.4", "dummy break events kept by default")
M("C05", "new-placeholder", SGL, "    start_event = Event(DUMMY_START_EVENT)",
  "    start_event = Event(DUMMY_EVENT)", "R5.4",
  "a placeholder without a sink")
M("C05", "label-upper", PG,
  "blocks.append(f\"{' ' * indent}:{self.node_type}{branch_info};\")",
  "blocks.append(f\"{' ' * indent}:{self.node_type.upper()}{branch_info};\")",
  "R5.5", "label transformed")
M("C05", "label-strip", CNG,
  "            event_type=event.event_type, uid=event.uid\n",
  "            event_type=event.event_type.strip(), uid=event.uid\n", "R5.5",
  "label sanitised upstream")
M("C05", "break-first", PG,
  """        blocks = []
        blocks.append(f"{' ' * indent}:{self.node_type}{branch_info};")
        if PUMLEvent.BREAK in self.event_types:
            blocks.append(f"{' ' * indent}break")""",
  """        blocks = []
        if PUMLEvent.BREAK in self.event_types:
            blocks.append(f"{' ' * indent}break")
        blocks.append(f"{' ' * indent}:{self.node_type}{branch_info};")""",
  "R5.6", "break emitted before its activity")
T("C05", "twin-fstring", PG, "2 * tab_size * \" \" + \"group \" + f'\"{name}\"',",
  "2 * tab_size * \" \" + f'group \"{name}\"',", "frame line as one f-string")

# ===================================================================== C01
M("C01", "no-breaks", P2P,
  "    update_nested_node_graph_with_break_points(node_graph)\n", "", "R1.1",
  "break-point phase dropped")
M("C01", "kill-late", P2P,
  """    find_and_add_loop_kill_paths_to_nested_graphs(node_graph)
    # walk the nested graph and create the PlantUML graph
    puml_graph = walk_nested_graph(node_graph)""",
  """    # walk the nested graph and create the PlantUML graph
    puml_graph = walk_nested_graph(node_graph)
    find_and_add_loop_kill_paths_to_nested_graphs(node_graph)""", "R1.1",
  "kill-path phase after the walk")
M("C01", "breaks-cond", P2P,
  "    update_nested_node_graph_with_break_points(node_graph)\n",
  "    if len(node_graph.nodes) > 3:\n        update_nested_node_graph_with_break_points(node_graph)\n",
  "R1.1", "break-point phase conditional")
M("C01", "no-merge-mark", CNG,
  "            node.update_event_types(PUMLEvent.MERGE)\n", "            pass\n",
  "R1.1", "merge marking never produced")
M("C01", "no-loop-detect", P2P,
  "    nested_loop_event_graph = detect_loops(initial_events_graph)\n",
  "    nested_loop_event_graph = initial_events_graph\n", "R1.1 R1.5",
  "loop detection bypassed")
M("C01", "no-attach", WALK,
  """    for sub_graph_node, sub_graph_puml_graph in sub_graph_node_puml_graphs:
        puml_graph.add_sub_graph_to_puml_nodes_with_ref(
            sub_graph_puml_graph, sub_graph_node.uid
        )
    return puml_graph""", "    return puml_graph", "R1.1",
  "loop bodies never attached to their PUML nodes")
M("C01", "no-kill-flag", NODE,
  "                self.is_loop_kill_path[index] = True\n",
  "                pass\n", "R1.1", "kill-path flag never produced")
M("C01", "value-drift", LD, '    PARALLEL = "+"\n', '    PARALLEL = "&"\n', "R1.2",
  "mirror enum value drifts from pm4py")
M("C01", "map-cross", NODE, '    "PARALLEL": "AND",\n    "XOR": "XOR",',
  '    "PARALLEL": "XOR",\n    "XOR": "AND",', "R1.2",
  "fork and switch crossed")
M("C01", "map-drop", NODE, '    "OR": "OR",\n', "", "R1.2", "OR gate has no entry")
M("C01", "crossed", DI,
  """        events[event_type].update_event_sets(
            get_events_set_from_events_list(event.post_events)
        )
        events[event_type].update_in_event_sets(
            get_events_set_from_events_list(event.previous_events)
        )""",
  """        events[event_type].update_event_sets(
            get_events_set_from_events_list(event.previous_events)
        )
        events[event_type].update_in_event_sets(
            get_events_set_from_events_list(event.post_events)
        )""", "R1.3", "successors and predecessors crossed")
M("C01", "in-dropped", DI,
  """        events[event_type].update_in_event_sets(
            get_events_set_from_events_list(event.previous_events)
        )


def update_and_create_events_from_graph_solutions(""",
  """

def update_and_create_events_from_graph_solutions(""", "R1.3",
  "predecessor sets never accumulated")
M("C01", "no-dummy", P2P, "pv_stream, add_dummy_start=True, events=events",
  "pv_stream, add_dummy_start=False, events=events", "R1.4",
  "no dummy start on the public path")
T("C01", "twin-graph-alias", P2P,
  "    node_graph = create_node_graph_from_event_graph(nested_loop_event_graph)",
  "    node_graph = create_node_graph_from_event_graph(initial_events_graph)",
  "detect_loops rewrites its argument in place: the name passed in is an "
  "alias of the result (was listed as mutant stale-graph until a triage "
  "showed `initial_events_graph is nested_loop_event_graph` always holds)")
M("C01", "node-graph-from-unrewritten-copy", P2P,
  "    nested_loop_event_graph = detect_loops(initial_events_graph)\n",
  "    nested_loop_event_graph = detect_loops(deepcopy(initial_events_graph))\n"
  "    nested_loop_event_graph = initial_events_graph\n",
  "R1.5", "node graph built from a graph loop extraction never saw")
T("C01", "twin-reorder", P2P,
  """    update_nested_node_graph_with_break_points(node_graph)
    # add loop kill paths to nested graphs
    find_and_add_loop_kill_paths_to_nested_graphs(node_graph)""",
  """    find_and_add_loop_kill_paths_to_nested_graphs(node_graph)
    update_nested_node_graph_with_break_points(node_graph)""",
  "two independent phases reordered")

# ---- later additions -------------------------------------------------------
M("C08", "group-by-type", SEQ,
  "async_groups[async_event_types[event.event_type]].append(event)",
  "async_groups.setdefault(event.event_type, []).append(event)", "R8.8",
  "mapped children grouped by their own type, not their group id")
M("C09", "dedupe", SQL,
  """            sorted(
                compute_graph_hash_from_event_ids(child, node_to_children)
                for child in children
            )""",
  """            sorted(set(
                compute_graph_hash_from_event_ids(child, node_to_children)
                for child in children
            ))""", "R9.2", "equal sibling sub-trees collapsed")
M("C11", "max-of-start", BASE,
  """            self._max_timestamp,
            otel_event.end_timestamp""",
  """            self._max_timestamp,
            otel_event.start_timestamp""", "R11.8",
  "window's upper end tracks start times")
T("C10", "twin-guarded-flush", SQL,
  """        super().__exit__(exc_type, exc_val, exc_tb)
        self.commit_batched_unique_data_to_database()""",
  """        super().__exit__(exc_type, exc_val, exc_tb)
        if self.node_models_to_save:
            self.commit_batched_unique_data_to_database()""",
  "flush skipped when nothing is pending")
M("C12", "map-key", SEQ,
  "        event_id_to_otel_event_map[otel_event.event_id] = otel_event\n",
  "        event_id_to_otel_event_map[otel_event.event_type] = otel_event\n",
  "R12.2", "per-trace map keyed by type: spans of one type overwrite each other")
M("C07", "prune-partial", CUG,
  """    remove_nodes_without_path_back_to_loop(
        set(graph.nodes), {root_event}, graph
    )""",
  """    remove_nodes_without_path_back_to_loop(
        loop.break_events, {root_event}, graph
    )""", "R7.7", "only the break events are pruning candidates")
M("C13", "stale-yield", JDS,
  """            for data in jsons:
                for record in generate_records_from_compiled_jq(
                    data, self.compiled_jq
                ):
                    try:
                        yield OTelEvent(**record)
                        self.events_pbar.update(1)
                    except ValidationError as e:""",
  """            for data in jsons:
                otel_event = None
                for record in generate_records_from_compiled_jq(
                    data, self.compiled_jq
                ):
                    try:
                        otel_event = OTelEvent(**record)
                    except ValidationError as e:
                        pass
                    if otel_event is not None:
                        yield otel_event
                        self.events_pbar.update(1)
                    try:
                        pass
                    except ValidationError as e:""", "R13.6",
  "an invalid record re-emits the previous span")
T("C13", "twin-yield-after", JDS,
  """                    try:
                        yield OTelEvent(**record)
                        self.events_pbar.update(1)
                    except ValidationError as e:""",
  """                    otel_event = None
                    try:
                        otel_event = OTelEvent(**record)
                    except ValidationError as e:
                        pass
                    if otel_event is not None:
                        yield otel_event
                        self.events_pbar.update(1)
                    try:
                        pass
                    except ValidationError as e:""",
  "span built in the try, yielded after it, variable reset per record")
M("C05", "copy-no-subgraph", PG,
  """                    event_types=event_node.event_types,
                    sub_graph=event_node.sub_graph,""",
  """                    event_types=event_node.event_types,""", "R5.7",
  "copied loop node loses its body")
TT("C04", "twin-helper", [
    (EV, """            event.update_event_sets(
                [
                    eventSet.eventType
                    for eventSet in eventSetList
                    for _ in range(eventSet.count)
                ]
            )""",
     """            event.update_event_sets(_expand(eventSetList))"""),
    (EV, """def event_inputs_to_events(""",
     """def _expand(eventSetList: list["EventSetCountInput"]) -> list[str]:
    return [
        eventSet.eventType
        for eventSet in eventSetList
        for _ in range(eventSet.count)
    ]


def event_inputs_to_events(""")],
   "multiplicity expansion moved into a helper")
T("C12", "twin-trailing-key", SQL,
  "query.order_by(NodeModel.job_name, NodeModel.job_id).yield_per(",
  "query.order_by(NodeModel.job_name, NodeModel.job_id, NodeModel.start_timestamp).yield_per(",
  "extra trailing sort key")
T("C14", "twin-enumerate", O2P,
  """    file_no = 1
    for pv_event_stream in pv_event_streams:
        save_pv_event_stream_to_file(
            job_name,
            pv_event_stream,
            output_file_directory,
            file_no,
            mapping_config,
        )
        file_no += 1""",
  """    for file_no, pv_event_stream in enumerate(pv_event_streams, start=1):
        save_pv_event_stream_to_file(
            job_name,
            pv_event_stream,
            output_file_directory,
            file_no,
            mapping_config,
        )""", "file counter through enumerate(start=1)")
M("C16", "mul-1e-9", UT, "datetime.fromtimestamp(unix_nano / 1e9, tz=UTC)",
  "datetime.fromtimestamp(unix_nano * 1e-9, tz=UTC)", "R16.3",
  "multiplication by the inexact constant 1e-9 exceeds the 0.5 µs radius after 2038")
TT("C11", "twin-helper-pred", [
    (SQL, """                        (
                            (NodeModel.start_timestamp <= time_window[1])
                            & (NodeModel.start_timestamp >= time_window[0])
                        )
                        | (
                            (NodeModel.end_timestamp <= time_window[1])
                            & (NodeModel.end_timestamp >= time_window[0])
                        )
                    )
                    > 0
                )
            )
            stmt_2 = sa.delete(NodeModel)""",
     """                        _in_window(time_window)
                    )
                    > 0
                )
            )
            stmt_2 = sa.delete(NodeModel)"""),
    (SQL, """def intialise_temp_table_for_root_nodes(""",
     """def _in_window(time_window: tuple[int, int]):
    lower, upper = time_window
    return (
        (NodeModel.start_timestamp <= upper)
        & (NodeModel.start_timestamp >= lower)
    ) | (
        (NodeModel.end_timestamp <= upper)
        & (NodeModel.end_timestamp >= lower)
    )


def intialise_temp_table_for_root_nodes(""")],
   "window predicate factored into a helper with tuple unpacking")
M("C01", "break-recursion-lost", NUP,
  """            update_sub_graph_node_break_points(node)
            update_nested_node_graph_with_break_points(node.sub_graph)""",
  """            update_sub_graph_node_break_points(node)""", "R1.6",
  "break points of inner loops never marked")
M("C01", "kill-recursion-cond", "walk_puml_graph/find_and_add_loop_kill_paths.py",
  """        find_and_add_loop_kill_paths_to_sub_graph_node(subgraph_node)
        find_and_add_loop_kill_paths_to_nested_graphs(subgraph_node.sub_graph)""",
  """        find_and_add_loop_kill_paths_to_sub_graph_node(subgraph_node)
        if len(subgraph_nodes) > 1:
            find_and_add_loop_kill_paths_to_nested_graphs(subgraph_node.sub_graph)""",
  "R1.6", "kill paths of nested loops computed only sometimes")
M("C01", "uids-crossed", CNG,
  """            start_uid=event.start_uid,
            end_uid=event.end_uid,""",
  """            start_uid=event.end_uid,
            end_uid=event.start_uid,""", "R1.7",
  "entry and exit uid of a loop node crossed")
M("C01", "break-by-type", NUP,
  "        if node.uid in sub_graph_node.break_uids:",
  "        if node.event_type in sub_graph_node.break_uids:", "R1.7",
  "break nodes looked up by type instead of uid")
M("C01", "kill-args-swapped", "walk_puml_graph/find_and_add_loop_kill_paths.py",
  """            {end_point},
            {start_point},""",
  """            {start_point},
            {end_point},""", "R1.7", "end and start points swapped")
T("C05", "twin-sep-index", PG,
  """                        path_node = OPERATOR_PATH_FUNCTION_MAP[
                            node.operator_type
                        ](i)""",
  """                        path_node = OPERATOR_PATH_FUNCTION_MAP[
                            node.operator_type
                        ](len(ordered_nodes) - 1)""",
  "0 exactly for the first branch either way (triaged: was listed as a mutant)")
M("C05", "sep-before-first-branch", PG,
  """                        path_node = OPERATOR_PATH_FUNCTION_MAP[
                            node.operator_type
                        ](i)""",
  """                        path_node = OPERATOR_PATH_FUNCTION_MAP[
                            node.operator_type
                        ](i + 1)""", "R5.8",
  "a separator in front of the first branch as well")
M("C05", "end-not-joined", WALK,
  """    puml_graph.add_puml_edge(
        previous_puml_node,
        logic_list[-1].end_node,
    )
    # handle the next path in the logic list and return updated previous puml
    # node and node class
    next_node_class = logic_list[-1].set_path_node(pop=True)""",
  """    next_node_class = logic_list[-1].set_path_node(pop=True)""", "R5.9",
  "finished paths are not joined to the block's terminator")
M("C05", "pair-crossed", WALK,
  "    new_block = LogicBlockHolder(start_operator, end_operator, logic_node)",
  "    new_block = LogicBlockHolder(end_operator, start_operator, logic_node)",
  "R5.9", "start and end operator nodes crossed")
M("C07", "tuple-crossed", "loop_detection/calculate_loop_components.py",
  "    return end_nodes, break_nodes, loop_edges\n",
  "    return break_nodes, end_nodes, loop_edges\n", "R7.8",
  "end and break nodes crossed in a returned tuple")
M("C07", "loop-fields-crossed", "loop_detection/calculate_loop_components.py",
  """        scc_events,
        start_events,
        end_events,
        break_events,""",
  """        scc_events,
        end_events,
        start_events,
        break_events,""", "R7.8", "Loop(...) start/end fields crossed")
M("C07", "handler-args-crossed", CUG,
  """    update_graph_for_loop_start_events(
        loop.start_events, loop.loop_events, loop_event, graph
    )""",
  """    update_graph_for_loop_start_events(
        loop.end_events, loop.loop_events, loop_event, graph
    )""", "R7.8", "start handler fed with the end events")
M("C08", "outer-sort-first", SEQ,
  """        return sorted(
            [
                sorted(group, key=lambda x: x.start_timestamp)
                for group in groups
            ],
            key=lambda x: x[0].start_timestamp,
        )""",
  """        return [
            sorted(group, key=lambda x: x.start_timestamp)
            for group in sorted(groups, key=lambda x: x[0].start_timestamp)
        ]""", "R8.5", "groups ordered before their members are sorted")
M("C16", "trunc-micro", P2T,
  """    unix_timestamp = int(dt.replace(microsecond=0).timestamp())
    # Convert the Unix timestamp to nanoseconds, adding the microseconds once
    unix_nano = unix_timestamp * 10**9 + dt.microsecond * 10**3""",
  """    unix_nano = int(dt.timestamp() * 10**6) * 10**3""", "R16.2",
  "float microseconds truncated: about 1% of instants come out 1 us early")

# ---- fraction digits read positionally (seed C16-c)
_P2T_BODY_OLD = '''    dt = datetime.fromisoformat(iso_timestamp.rstrip("Z")).replace(
        tzinfo=timezone.utc
    )'''
MM("C16", "frac-digits-as-int", [
    (P2T, _P2T_BODY_OLD,
     '''    seconds, _, digits = iso_timestamp.rstrip("Z").partition(".")
    dt = datetime.fromisoformat(seconds).replace(tzinfo=timezone.utc)'''),
    (P2T, "dt.microsecond * 10**3", "int(digits or 0) * 10**3")],
   "R16.1", "fraction digits read as a microsecond count ('.5' -> 5 us)")
TT("C16", "twin-frac-digits-padded", [
    (P2T, _P2T_BODY_OLD,
     '''    seconds, _, digits = iso_timestamp.rstrip("Z").partition(".")
    dt = datetime.fromisoformat(seconds).replace(tzinfo=timezone.utc)'''),
    (P2T, "dt.microsecond * 10**3", 'int(digits.ljust(6, "0")) * 10**3')],
   "fraction digits padded to six places before int()")

# ===================================================== wave c (session 3)
_ANC_OLD = '''    # group the child events using async information
    event_groups = group_events_using_async_information(
        child_events, event_type_to_group_map
    )
    if async_flag:
        event_groups = sequence_groups_of_otel_events_asynchronously(
            event_groups
        )
    else:
        event_groups = order_groups_by_start_timestamp(event_groups)'''
M("C08", "async-arm-ungrouped", SEQ, _ANC_OLD,
  '''    if async_flag:
        event_groups = sequence_groups_of_otel_events_asynchronously(
            [[child_event] for child_event in child_events]
        )
    else:
        event_groups = order_groups_by_start_timestamp(
            group_events_using_async_information(
                child_events, event_type_to_group_map
            )
        )''', "R8.5",
  "prior-information grouping only on the synchronous arm (seed C08-c)")
T("C08", "twin-arms-inline-groups", SEQ, _ANC_OLD,
  '''    if not async_flag:
        event_groups = order_groups_by_start_timestamp(
            group_events_using_async_information(
                child_events, event_type_to_group_map
            )
        )
    else:
        grouped = group_events_using_async_information(
            child_events, event_type_to_group_map
        )
        event_groups = sequence_groups_of_otel_events_asynchronously(grouped)''',
  "same computation, arms swapped and grouping inlined per arm")
M("C08", "outer-key-last", SEQ, "key=lambda x: x[0].start_timestamp,",
  "key=lambda x: x[-1].start_timestamp,", "R8.5",
  "groups ordered by their latest-starting member")
M("C08", "rename-skips-parents", SEQ,
  "    if otel_event.child_event_ids is None:\n        return",
  "    if otel_event.child_event_ids is not None:\n        return", "R8.6",
  "rename returns early for every span that has children")
M("C08", "group-drops-children", SEQ, "    if not events:\n        return []",
  "    if events:\n        return []", "R8.8",
  "grouping returns nothing whenever there are children")
T("C08", "twin-guard-clause-rename", SEQ,
  '''        if event.event_type in event_types_map_information:
            update_event_type_based_on_children(
                event, otel_events_job,
                event_types_map_information[event.event_type]
            )''',
  '''        if event.event_type not in event_types_map_information:
            continue
        info = event_types_map_information[event.event_type]
        update_event_type_based_on_children(event, otel_events_job, info)''',
  "guard clause + temporary instead of nested if")

M("C05", "rotate-misses-index-list", WALK,
  "        self._path_indexes = [self._path_indexes[-1]] + self._path_indexes[:-1]\n",
  "", "R5.10", "one per-path list no longer rotates with the others (seed C05-c)")
TT("C05", "twin-rotate-helper", [
    (WALK, '''        self.merge_nodes = [self.merge_nodes[-1]] + self.merge_nodes[:-1]''',
     '''        self.merge_nodes = self.merge_nodes[-1:] + self.merge_nodes[:-1]'''),
    (WALK, '''        self._path_indexes = [self._path_indexes[-1]] + self._path_indexes[:-1]''',
     '''        self._path_indexes.insert(0, self._path_indexes.pop())''')],
   "other spellings of the same rotation")

M("C13", "rewind-after-partial-lines", JDS,
  "        except json.JSONDecodeError:\n            pass",
  "        except json.JSONDecodeError:\n            file_io.seek(0)", "R13.7",
  "fallback re-reads documents that were already yielded (seed C13-c)")

_LOOKUP_OLD = '''        existing_event_ids = self.get_event_ids_existing_in_db(
            event_id_duplicates.keys()
        )'''
_LOOKUP_NEW = '''        existing_event_ids: set[str] = set()
        if len(filtered_nodes) == len(self.node_models_to_save):
            existing_event_ids = self.get_event_ids_existing_in_db(
                event_id_duplicates.keys()
            )'''
M("C10", "lookup-only-without-batch-dups", SQL, _LOOKUP_OLD, _LOOKUP_NEW,
  "R10.6", "stored ids not looked up when the batch has its own duplicates")
M("C15", "lookup-only-without-batch-dups", SQL, _LOOKUP_OLD, _LOOKUP_NEW,
  "R15.7", "re-ingest of files that repeat a span fails (seed C15-c)")
M("C10", "link-guard-is-not-none", SQL,
  "        if otel_event.parent_event_id:\n",
  "        if otel_event.parent_event_id is not None:\n", "R10.7",
  "link queued for a span that is stored as a root")
M("C11", "link-guard-is-not-none", SQL,
  "        if otel_event.parent_event_id:\n",
  "        if otel_event.parent_event_id is not None:\n", "R11.9",
  "phantom parent '' makes cleaning delete a well-formed trace (seed C11-c)")
TT("C11", "twin-both-not-none", [
    (SQL, "        if otel_event.parent_event_id:\n",
     "        if otel_event.parent_event_id is not None:\n"),
    (SQL, "parent_event_id=otel_event.parent_event_id or None,",
     "parent_event_id=otel_event.parent_event_id,")],
   "no normalisation on either side: record and link agree")

M("C14", "mandatory-by-value", SIM,
  '''    if not mandatory_fields.issubset(pv_dict.keys()):
        missing_fields = mandatory_fields - pv_dict.keys()
        raise ValueError(''',
  '''    missing_fields = {
        field for field in mandatory_fields if not pv_dict.get(field)
    }
    if missing_fields:
        raise ValueError(''', "R14.2",
  "loader rejects records whose mandatory value is empty (seed C14-c)")
T("C14", "twin-mandatory-by-key-loop", SIM,
  '''    if not mandatory_fields.issubset(pv_dict.keys()):
        missing_fields = mandatory_fields - pv_dict.keys()
        raise ValueError(''',
  '''    missing_fields = {
        field for field in mandatory_fields if field not in pv_dict
    }
    if missing_fields:
        raise ValueError(''', "key-presence test written as a comprehension")

# ---- seconds and microseconds rounded together (seed C16-d)
M("C16", "mixed-rounding", UT,
  "datetime.fromtimestamp(unix_nano / 1e9, tz=UTC)",
  "datetime.fromtimestamp(unix_nano / 1e9, tz=UTC).replace(microsecond=unix_nano // 10**3 % 10**6)",
  "R16.3", "seconds from nearest-rounding, microseconds from truncation")
T("C16", "twin-all-truncated", UT,
  "datetime.fromtimestamp(unix_nano / 1e9, tz=UTC)",
  "datetime.fromtimestamp(unix_nano // 10**9, tz=UTC).replace(microsecond=unix_nano // 10**3 % 10**6)",
  "both fields by integer truncation")

# ===================================================== wave d (session 3)
M("C10", "pending-list-sorted", SQL,
  "        self.batch_insert_objects(self.node_models_to_save)\n",
  "        self.node_models_to_save.sort(key=lambda node: node.start_timestamp)\n"
  "        self.batch_insert_objects(self.node_models_to_save)\n",
  "R10.5", "pending list re-ordered in place before a failing insert (seed C10-d)")
_JM_OLD = '''    for job_group in job_id_streams:
        try:
            yield convert_otel_event_stream_to_event_id_to_otelevent_map(
                job_group
            )
        except OTelTreeDisconnectedError:
            LOGGER.warning('''
M("C12", "try-around-trace-loop", SEQ, _JM_OLD,
  '''    try:
        for job_group in job_id_streams:
            yield convert_otel_event_stream_to_event_id_to_otelevent_map(
                job_group
            )
    except OTelTreeDisconnectedError:
        for _ in ():
            LOGGER.warning(''', "R12.2",
  "handler around the per-trace loop: one broken trace ends the stream")
M("C14", "loader-strips-whitespace", TY,
  '''    """Pydantic model for PVEvent"""
''',
  '''    """Pydantic model for PVEvent"""

    model_config = {"str_strip_whitespace": True}
''', "R14.3", "validation model rewrites loaded strings (seed C14-d)")
T("C14", "twin-model-config-benign", TY,
  '''    """Pydantic model for PVEvent"""
''',
  '''    """Pydantic model for PVEvent"""

    model_config = {"extra": "ignore"}
''', "a model_config option that does not touch values")
_DC_OLD = "    events_for_calculations = deepcopy(events)\n"
_DC_NEW = ("    events_for_calculations = (\n"
           "        deepcopy(events) if len(events) > 50 else events\n    )\n")
M("C04", "conditional-deepcopy", P2P, _DC_OLD, _DC_NEW, "R4.5",
  "derived phases sometimes run on the model itself (seed C01-d)")
M("C01", "conditional-deepcopy", P2P, _DC_OLD, _DC_NEW, "R1.8",
  "derived phases sometimes run on the model itself (seed C01-d)")
T("C04", "twin-deepcopy-via-temp", P2P, _DC_OLD,
  "    snapshot = deepcopy(events)\n    events_for_calculations = snapshot\n",
  "the copy is bound to a temporary first")
_MM_OLD = '''        self._min_timestamp = min(
            self._min_timestamp, otel_event.start_timestamp
        )
        self._max_timestamp = max(
            self._max_timestamp,
            otel_event.end_timestamp
        )'''
M("C11", "window-elif", BASE, _MM_OLD,
  '''        if otel_event.start_timestamp < self._min_timestamp:
            self._min_timestamp = otel_event.start_timestamp
        elif otel_event.end_timestamp > self._max_timestamp:
            self._max_timestamp = otel_event.end_timestamp''', "R11.8",
  "a span that lowers the minimum cannot raise the maximum (seed C11-d)")
T("C11", "twin-window-two-ifs", BASE, _MM_OLD,
  '''        if otel_event.start_timestamp < self._min_timestamp:
            self._min_timestamp = otel_event.start_timestamp
        if otel_event.end_timestamp > self._max_timestamp:
            self._max_timestamp = otel_event.end_timestamp''',
  "compare-and-assign, each end independently")
_LT_OLD = '''    return datetime_to_pv_string(
        datetime.fromtimestamp(unix_nano / 1e9, tz=UTC)
    )'''
_LT_NEW = '''    seconds, nanoseconds = divmod(unix_nano, 10**9)
    return datetime_to_pv_string(
        datetime.fromtimestamp(seconds).replace(
            microsecond=nanoseconds // 1000, tzinfo=UTC
        )
    )'''
M("C08", "end-time-in-local-zone", UT, _LT_OLD, _LT_NEW, "R8.9",
  "local wall clock labelled as UTC (seed C08-d)")
M("C16", "end-time-in-local-zone", UT, _LT_OLD, _LT_NEW, "R16.3",
  "local wall clock labelled as UTC (seed C08-d)")
T("C16", "twin-divmod-utc", UT, _LT_OLD,
  '''    seconds, nanoseconds = divmod(unix_nano, 10**9)
    return datetime_to_pv_string(
        datetime.fromtimestamp(seconds, tz=UTC).replace(
            microsecond=nanoseconds // 1000
        )
    )''', "integer split, UTC, truncation on both fields")

MM("C07", "break-revision-after-carving", [
    (DL, "        filter_and_replace_breaks_connected_to_end_events(graph, loop)\n", ""),
    (DL, "        sub_graph = detect_loops(sub_graph)\n",
     "        filter_and_replace_breaks_connected_to_end_events(graph, loop)\n"
     "        sub_graph = detect_loops(sub_graph)\n")],
   "R7.9", "break events revised after the loop body was carved out (seed C07-d)")

# ===================================================== wave e (session 3)
M("C05", "convert-inside-open", P2P,
  '''    puml_string = pv_to_puml_string(
        pv_stream, puml_name, keep_dummy_events, events
    )
    with open(puml_file_path, "w") as puml_file:
        puml_file.write(puml_string)''',
  '''    with open(puml_file_path, "w") as puml_file:
        puml_file.write(
            pv_to_puml_string(pv_stream, puml_name, keep_dummy_events, events)
        )''', "R5.11",
  "file truncated before the diagram exists (seed C05-e)")
M("C16", "memoised-formatter", UT,
  "def datetime_to_pv_string(date_time: datetime) -> str:",
  "@__import__('functools').lru_cache(maxsize=4096)\n"
  "def datetime_to_pv_string(date_time: datetime) -> str:", "R16.4",
  "formatter memoised on datetime equality (seed C16-e)")
M("C07", "cut-all-start-in-edges", SGL,
  "        for in_edge in graph.in_edges(loop.start_events)\n"
  "        if in_edge[0] not in loop.loop_events\n",
  "        for in_edge in graph.in_edges(loop.start_events)\n", "R7.10",
  "inner back edges to the start event are cut (seed C07-e)")
T("C07", "twin-cut-filter-reordered", SGL,
  "        if in_edge[0] not in loop.loop_events\n",
  "        if not (in_edge[0] in loop.loop_events)\n",
  "same boundary filter, other spelling")
M("C01", "merge-types-deduplicated", WALK,
  '''        paths_event_types = [
            node.event_type
            for node, merge_node in zip(self.paths, self.merge_nodes)
            if merge_node == potential_merge_node
        ]''',
  '''        paths_event_types = frozenset(
            node.event_type
            for node, merge_node in zip(self.paths, self.merge_nodes)
            if merge_node == potential_merge_node
        )''', "R1.9", "merge validation forgets repeated event types (seed C01-e)")
M("C14", "listing-by-glob", MAIN,
  '''    for root, _, files in os.walk(directory):
        for file in files:
            job_files.append(os.path.join(root, file))''',
  '''    import glob
    job_files = sorted(
        path
        for path in glob.iglob(os.path.join(directory, "**"), recursive=True)
        if os.path.isfile(path)
    )''', "R14.6", "job folder path read as a glob pattern (seed C14-e)")
T("C14", "twin-listing-by-escaped-glob", MAIN,
  '''    for root, _, files in os.walk(directory):
        for file in files:
            job_files.append(os.path.join(root, file))''',
  '''    import glob
    job_files = sorted(
        path
        for path in glob.iglob(
            os.path.join(glob.escape(directory), "**"), recursive=True
        )
        if os.path.isfile(path)
    )''', "glob on the escaped path")
_BW = '''    def include_stored_spans_in_timestamp_bounds(self) -> None:
        with self.session as session:
            stored_min, stored_max = session.execute(
                sa.select(
                    sa.func.min(NodeModel.start_timestamp),
                    sa.func.max(NodeModel.end_timestamp),
                )
            ).one()
        if stored_min is not None:
            self._min_timestamp = min(self._min_timestamp, stored_min)
            self._max_timestamp = max(self._max_timestamp, stored_max)

    def find_unique_graphs(self) -> dict[str, set[str]]:'''
M("C15", "bounds-from-store", SQL,
  "    def find_unique_graphs(self) -> dict[str, set[str]]:", _BW, "R15.8",
  "tracked bounds widened from the (trimmed) store (seed C15-e)")
M("C11", "bounds-from-store", SQL,
  "    def find_unique_graphs(self) -> dict[str, set[str]]:", _BW, "R11.8",
  "tracked bounds widened from the (trimmed) store (seed C15-e)")
M("C08", "try-around-trace-loop", SEQ, _JM_OLD,
  '''    try:
        for job_group in job_id_streams:
            yield convert_otel_event_stream_to_event_id_to_otelevent_map(
                job_group
            )
    except OTelTreeDisconnectedError:
        for _ in ():
            LOGGER.warning(''', "R8.10",
  "one broken trace ends the sequencing of its workflow (seed C08-e)")

# ===================================================== wave f (session 3)
M("C10", "flush-before-link", SQL,
  '''        self.node_models_to_save.append(node_model)
        self.add_node_relations(otel_event)

        if len(self.node_models_to_save) >= self.batch_size:
            self.commit_batched_unique_data_to_database()
''',
  '''        self.node_models_to_save.append(node_model)

        if len(self.node_models_to_save) >= self.batch_size:
            self.commit_batched_unique_data_to_database()
        self.add_node_relations(otel_event)
''', "R10.5", "threshold flush between a span's node and its link (seed C10-f)")
_LOOP_OLD = '''    for job_group in job_id_streams:
        try:
            yield convert_otel_event_stream_to_event_id_to_otelevent_map(
                job_group
            )
        except OTelTreeDisconnectedError:
            LOGGER.warning(
                "Parent events are missing for the job so the job cannot be "
                "sequenced when the tree is broken."
            )'''
_LOOP_STALE = '''    trace_map: dict[str, OTelEvent] = {}
    for job_group in job_id_streams:
        try:
            trace_map = convert_otel_event_stream_to_event_id_to_otelevent_map(
                job_group
            )
        except OTelTreeDisconnectedError:
            LOGGER.warning(
                "Parent events are missing for the job so the job cannot be "
                "sequenced when the tree is broken."
            )
        if trace_map:
            yield trace_map'''
_LOOP_FRESH = '''    for job_group in job_id_streams:
        try:
            trace_map = convert_otel_event_stream_to_event_id_to_otelevent_map(
                job_group
            )
        except OTelTreeDisconnectedError:
            LOGGER.warning(
                "Parent events are missing for the job so the job cannot be "
                "sequenced when the tree is broken."
            )
            continue
        yield trace_map'''
M("C12", "stale-trace-reyielded", SEQ, _LOOP_OLD, _LOOP_STALE, "R12.2",
  "the previous trace is delivered again after a broken one (seed C12-f)")
M("C08", "stale-trace-reyielded", SEQ, _LOOP_OLD, _LOOP_STALE, "R8.10",
  "the previous trace is delivered again after a broken one (seed C12-f)")
T("C12", "twin-yield-after-try", SEQ, _LOOP_OLD, _LOOP_FRESH,
  "yield moved out of the try, handler continues")
M("C11", "window-scan-skipped-for-zero-buffer", SQL,
  '''        """Remove jobs within the buffer."""
        time_window = get_time_window(self.time_buffer, self)''',
  '''        """Remove jobs within the buffer."""
        if self.time_buffer == 0:
            return
        time_window = get_time_window(self.time_buffer, self)''', "R11.2",
  "traces of earlier runs stay when this run has no buffer (seed C11-f)")

M("C07", "loop-out-sets-from-start-events", LEM,
  "loop.end_events | loop.break_events, loop_event, loop_event_types",
  "loop.start_events | loop.break_events, loop_event, loop_event_types",
  "R7.8", "the loop node's successors are taken from the start events")
M("C07", "start-edges-from-end-events", SGL,
  "for in_edge in graph.in_edges(loop.start_events)",
  "for in_edge in graph.in_edges(loop.end_events)", "R7.8",
  "a local named after the start events is built from the end events")
M("C01", "gate-children-filtered", NODE,
  "            for child in logic_tree.children:\n"
  "                logic_operator_node._load_logic_into_logic_list(\n"
  "                    child, event_node_map, direction, root_node\n"
  "                )\n",
  "            for child in logic_tree.children:\n"
  "                if child.label is None:\n"
  "                    continue\n"
  "                logic_operator_node._load_logic_into_logic_list(\n"
  "                    child, event_node_map, direction, root_node\n"
  "                )\n", "R1.10", "nested gates under a gate are skipped")
M("C11", "fallback-when-data-seen", BASE,
  "        if self._max_timestamp < self._min_timestamp:\n            return 9223372036854775807",
  "        if self._max_timestamp >= self._min_timestamp:\n            return 9223372036854775807",
  "R11.8", "the unbounded upper bound is returned once data was ingested")

JQC = "json_data_source/json_jq_converter.py"
M("C13", "alternative-answered-from-memo", JQC,
  '''            variable = f"{out_var}concat{i}{j}"
            priority_variables.append(variable)
''',
  '''            variable = f"{out_var}concat{i}{j}"
            if j > 0 and key_value is not None and key_path == priority_key_paths[0]:
                priority_variables.append(priority_variables[0])
                continue
            priority_variables.append(variable)
''', "R13.8", "a fall-back alternative re-uses the first alternative's variable (seed C13-f shape)")

M("C01", "incoming-sets-from-successors", CNG,
  "node.eventsets_incoming = event.in_event_sets",
  "node.eventsets_incoming = event.event_sets", "R1.11",
  "merge validation would read the successor sets")
M("C05", "break-on-non-break-loop-nodes", PG,
  "            if PUMLEvent.BREAK in self.event_types:\n                blocks.append(f\"{' ' * indent}break\")",
  "            if PUMLEvent.BREAK not in self.event_types:\n                blocks.append(f\"{' ' * indent}break\")",
  "R5.6", "break emitted after every loop that is not a break point")

M("C05", "occurrence-not-advanced", PG,
  "        self.add_puml_node(node)\n        self.increment_occurrence_count(event_name)\n",
  "        self.add_puml_node(node)\n", "R5.12",
  "two events of one type get the same node identity")

M("C05", "created-node-not-connected", WALK,
  "    puml_graph.add_puml_edge(previous_puml_node, next_puml_node)\n    return next_puml_node, event_node",
  "    return next_puml_node, event_node", "R5.13",
  "the created event node is never linked below its predecessor")
M("C05", "lonely-merge-index-not-rotated", WALK,
  '''        if self.lonely_merge_index is not None:
            self.lonely_merge_index = (self.lonely_merge_index + 1) % len(
                self.paths
            )
''', "", "R5.10", "the lonely-merge position stays behind when the lists rotate")
M("C01", "break-marks-non-break-nodes", NUP,
  "        if node.uid in sub_graph_node.break_uids:",
  "        if node.uid not in sub_graph_node.break_uids:", "R1.7",
  "BREAK marks every body node that is not a break point")

# ===================================================== wave g (session 3)
JCFG = "json_data_source/json_config.py"
_ING_OLD = ("    for graph_solution in graph_solutions:\n"
            "        update_and_create_events_from_graph_solution(graph_solution, events)\n")
M("C01", "jobs-skipped-when-seen", DI, _ING_OLD,
  "    seen: set[frozenset[str]] = set()\n"
  "    for graph_solution in graph_solutions:\n"
  "        shape = frozenset(e.meta_data['EventType'] for e in graph_solution.events.values())\n"
  "        if shape in seen:\n"
  "            continue\n"
  "        seen.add(shape)\n"
  "        update_and_create_events_from_graph_solution(graph_solution, events)\n",
  "R1.12", "a job is skipped when the run already saw one like it (seed C04-g)")
M("C04", "jobs-skipped-when-seen", DI, _ING_OLD,
  "    seen: set[frozenset[str]] = set()\n"
  "    for graph_solution in graph_solutions:\n"
  "        shape = frozenset(e.meta_data['EventType'] for e in graph_solution.events.values())\n"
  "        if shape in seen:\n"
  "            continue\n"
  "        seen.add(shape)\n"
  "        update_and_create_events_from_graph_solution(graph_solution, events)\n",
  "R4.7", "a job is skipped when the run already saw one like it (seed C04-g)")
M("C05", "only-first-node-registered", PG,
  '''        if parent_graph_node not in self.parent_graph_nodes_to_node_ref:
            self.parent_graph_nodes_to_node_ref[parent_graph_node] = []
        self.parent_graph_nodes_to_node_ref[parent_graph_node].append(node_ref)''',
  '''        self.parent_graph_nodes_to_node_ref.setdefault(
            parent_graph_node, [node_ref]
        )''', "R5.12", "later diagram nodes of a loop node are not registered (seed C05-g)")
T("C05", "twin-register-setdefault-append", PG,
  '''        if parent_graph_node not in self.parent_graph_nodes_to_node_ref:
            self.parent_graph_nodes_to_node_ref[parent_graph_node] = []
        self.parent_graph_nodes_to_node_ref[parent_graph_node].append(node_ref)''',
  '''        self.parent_graph_nodes_to_node_ref.setdefault(
            parent_graph_node, []
        ).append(node_ref)''', "setdefault(...).append(...) keeps every node")
M("C07", "break-complement-of-wrong-set", CUG,
  '''        loop.break_events
        - break_events_without_path_back_to_root_and_other_break_events''',
  "        loop.break_events - break_events_without_path_back_to_root",
  "R7.11", "a break event can be re-attached by neither handler (seed C07-g)")
_FAN_OLD = '''    # get end event to event lists mapping so that we can make sure branch
    # events are still accounted for in loops
    end_event_to_event_lists_mapping = create_end_event_to_event_lists_mapping(
        sub_loop.end_events, sub_loop, sub_graph
    )
    # remove loop edges from sub graph
    remove_loop_edges(sub_loop, sub_graph)
'''
_FAN_NEW = '''    # remove loop edges from sub graph
    remove_loop_edges(sub_loop, sub_graph)
    end_event_to_event_lists_mapping = create_end_event_to_event_lists_mapping(
        sub_loop.end_events, sub_loop, sub_graph
    )
'''
M("C07", "exit-fanout-after-cut", SGL, _FAN_OLD, _FAN_NEW, "R7.11",
  "exit fan-out read after the exit edges were cut (seed C01-g)")
M("C01", "exit-fanout-after-cut", SGL, _FAN_OLD, _FAN_NEW, "R1.13",
  "exit fan-out read after the exit edges were cut (seed C01-g)")
M("C12", "job-name-nocase", DM,
  "    id: Mapped[str] = mapped_column(Integer, primary_key=True)\n"
  "    job_name: Mapped[str] = mapped_column(String, nullable=False)",
  "    id: Mapped[str] = mapped_column(Integer, primary_key=True)\n"
  "    job_name: Mapped[str] = mapped_column(String(collation=\"NOCASE\"), nullable=False)",
  "R12.1", "case-insensitive ORDER BY under a case-sensitive groupby (seed C12-g)")
M("C14", "non-ascii-in-default-encoding", O2P,
  "json.dump(pv_event_list, f, indent=4)",
  "json.dump(pv_event_list, f, indent=4, ensure_ascii=False)", "R14.3",
  "non-ASCII written in the platform encoding, read as UTF-8 (seed C14-g)")
TT("C14", "twin-utf8-both-sides", [
    (O2P, "json.dump(pv_event_list, f, indent=4)",
     "json.dump(pv_event_list, f, indent=4, ensure_ascii=False)"),
    (O2P, '        with open(file_path, "w") as f:',
     '        with open(file_path, "w", encoding="utf-8") as f:')],
   "readable UTF-8 written explicitly as UTF-8")
M("C13", "iterable-walked-twice", JCFG,
  '''            priority_key_path = tuple(iter(key_path))
            for key in priority_key_path:''',
  '''            priority_key_path = tuple(key_path)
            for key in key_path:''', "R13.9",
  "the parameter itself is traversed a second time (seed C13-g shape)")

# ============================================================ wave h (R7.12 / R5.14: loop boundary evidence)
for _P, _R in (("C07", "R7.12"), ("C05", "R5.14")):
    M(_P, "dummy-start-loses-counts", SGL,
      "                start_event.update_event_sets(event_set.to_list())",
      "                start_event.update_event_sets(list(event_set.to_frozenset()))",
      _R, "a start event that is entered twice in parallel is mirrored once")
    M(_P, "dummy-start-exact-match-only", SGL,
      "            if event_set.to_frozenset().issubset(start_event_types):",
      "            if event_set.to_frozenset() == start_event_types:",
      _R, "only the successor set that names every start event is mirrored: "
      "a body entered through one of two start events loses that branch")
    T(_P, "twin-dummy-end-no-fallback", SGL,
      "            end_event.update_in_event_sets([end_event_node.event_type])",
      "            pass",
      "add_end_event_to_graph adds the same singleton set for every end "
      "event (triaged: was listed as a mutant)")
    M(_P, "dummy-end-wrong-direction", SGL,
      "                for event_set in out_node.in_event_sets:",
      "                for event_set in out_node.event_sets:", _R,
      "dummy end mirrors the successor sets of the exit nodes")
    M(_P, "dummy-end-first-exit-only", SGL,
      "            for out_node in exit_event_nodes:\n"
      "                for event_set in out_node.in_event_sets:",
      "            for out_node in list(exit_event_nodes)[:1]:\n"
      "                for event_set in out_node.in_event_sets:", _R,
      "only one outside successor is mirrored")
    M(_P, "end-fanout-ignored", SGL,
      "        if event_lists:\n            for event_list in",
      "        if event_lists and len(event_lists) == 1:\n            for event_list in",
      _R, "recorded exit fan-out dropped when there are several sets")
    T(_P, "twin-start-not-recorded-as-predecessor", SGL,
      "        loop_start_event.update_in_event_sets([DUMMY_START_EVENT])\n",
      "", "no later phase reads the predecessor set {dummy start} of a loop "
      "start event (triaged: was listed as a mutant)")
    M(_P, "end-edge-reversed", SGL,
      "        graph.add_edge(loop_end_event, end_event)",
      "        graph.add_edge(end_event, loop_end_event)", _R,
      "edge dummy end -> loop end")
    T(_P, "twin-boundary-comprehension", SGL,
      "    for in_node in in_nodes:\n"
      "        for event_set in in_node.event_sets:\n"
      "            if event_set.to_frozenset().issubset(start_event_types):\n"
      "                start_event.update_event_sets(event_set.to_list())",
      "    mirrored = [\n"
      "        es for n in in_nodes for es in n.event_sets\n"
      "        if frozenset(es.to_list()) <= start_event_types\n"
      "    ]\n"
      "    for es in mirrored:\n"
      "        start_event.update_event_sets(es.to_list())",
      "same sets selected through a comprehension and <=")
    T(_P, "twin-end-mapping-or", SGL,
      "    if end_event_to_event_lists is None:\n"
      "        end_event_to_event_lists_used: dict[Event, list[list[str]]] = {}\n"
      "    else:\n"
      "        end_event_to_event_lists_used = end_event_to_event_lists\n",
      "    end_event_to_event_lists_used = end_event_to_event_lists or {}\n",
      "`or {}` instead of the None test")

# ============================================================ wave h (C08: chain decision as a guard clause)
_CH_OLD = '''        group_first_event = group[0]
        if max_timestamp < group_first_event.start_timestamp:
            ordered_groups_async.append(group)
        else:
            ordered_groups_async[-1].extend(group)
        max_timestamp = max(
            max_timestamp, max(event.end_timestamp for event in group)
        )'''
M("C08", "continue-skips-running-max", SEQ, _CH_OLD,
  '''        if max_timestamp < group[0].start_timestamp:
            ordered_groups_async.append(group)
            continue
        ordered_groups_async[-1].extend(group)
        max_timestamp = max(
            max_timestamp, max(event.end_timestamp for event in group)
        )''', "R8.1", "early continue on the new-chain arm skips the running "
  "maximum: the window end freezes after the first gap (seed C08-h)")
T("C08", "twin-chain-guard-clause", SEQ, _CH_OLD,
  '''        if max_timestamp < group[0].start_timestamp:
            ordered_groups_async.append(group)
            max_timestamp = max(
                max_timestamp, max(event.end_timestamp for event in group)
            )
            continue
        ordered_groups_async[-1].extend(group)
        max_timestamp = max(
            max_timestamp, max(event.end_timestamp for event in group)
        )''', "guard clause with the update on both paths")

# ============================================================ wave h (C11/C09: exact window bounds)
for _P, _R in (("C11", "R11.4"), ("C09", "R9.6")):
    M(_P, "window-bounds-float", BASE,
      "    time_buffer_in_nanoseconds = time_buffer * 60 * 1000000000",
      "    time_buffer_in_nanoseconds = time_buffer * 60 * 1e9", _R,
      "float64 bounds: ns timestamps rounded to multiples of 256 (seed C11-h)")
    M(_P, "window-bounds-division", BASE,
      "    time_buffer_in_nanoseconds = time_buffer * 60 * 1000000000",
      "    time_buffer_in_nanoseconds = time_buffer * 60 * 10**12 / 1000", _R,
      "true division makes the bounds float")
    T(_P, "twin-window-bounds-pow", BASE,
      "    time_buffer_in_nanoseconds = time_buffer * 60 * 1000000000",
      "    time_buffer_in_nanoseconds = time_buffer * 60 * 10**9",
      "integer power")

# ============================================================ wave h (C10/C15)
M("C10", "filter-on-operational-error", SQL,
  '''            self.check_and_filter_non_unique_nodes_and_associations()

    def batch_insert_objects''',
  '''            self.check_and_filter_non_unique_nodes_and_associations()
        except OperationalError:
            self.check_and_filter_non_unique_nodes_and_associations()

    def batch_insert_objects''', "R10.3",
  "transient failure at the link insert retried through the duplicate "
  "filter: links of the batch are dropped (seed C10-h)")
_LOOKUP_OLD = '''        with self.session as session:
            existing_event_id_cells = (
                session.query(NodeModel.event_id)
                .filter(NodeModel.event_id.in_(event_ids_to_check))
                .all()
            )
            return {str(row[0]) for row in existing_event_id_cells}
'''
_LOOKUP_CHUNK = '''        event_ids = list(event_ids_to_check)
        existing_event_ids: set[str] = set()
        with self.session as session:
            for start in range(0, len(event_ids), 999):
                existing_event_id_cells = (
                    session.query(NodeModel.event_id)
                    .filter(
                        NodeModel.event_id.in_(
                            event_ids[start:%s]
                        )
                    )
                    .all()
                )
                existing_event_ids.update(
                    str(row[0]) for row in existing_event_id_cells
                )
        return existing_event_ids
'''
for _P, _R in (("C10", "R10.6"), ("C15", "R15.7")):
    M(_P, "chunked-lookup-wrong-slice", SQL, _LOOKUP_OLD,
      _LOOKUP_CHUNK % "999", _R,
      "every chunk after the first is empty (seed C15-h)")
    T(_P, "twin-chunked-lookup", SQL, _LOOKUP_OLD,
      _LOOKUP_CHUNK % "start + 999", "correctly chunked lookup")

# ============================================================ wave h (C04: a second flag-guarded cache)
_INC_EDITS = [
    (EV, "        self._update_since_logic_gate_tree = False\n\n    @property\n    def uid",
     "        self._update_since_logic_gate_tree = False\n"
     "        self._in_logic_gate_tree: ProcessTree | None = None\n"
     "        self._update_since_in_logic_gate_tree = False\n\n"
     "    @property\n"
     "    def in_logic_gate_tree(self) -> ProcessTree:\n"
     "        if self._update_since_in_logic_gate_tree:\n"
     "            self._in_logic_gate_tree = calculate_logic_gates(\n"
     "                self.in_event_sets\n"
     "            )\n"
     "            self._update_since_in_logic_gate_tree = False\n"
     "        return self._in_logic_gate_tree\n\n"
     "    @property\n    def uid"),
    (EV, "        self.in_event_sets.add(EventSet(events))\n",
     "        self.in_event_sets.add(EventSet(events))\n"
     "        self._update_since_in_logic_gate_tree = True\n"),
    (EV, "            if event_type not in event_set\n        }\n\n    def to_event_input",
     "            if event_type not in event_set\n        }\n"
     "        self._update_since_in_logic_gate_tree = True\n\n    def to_event_input"),
]
MM("C04", "incoming-cache-not-marked-by-loader", _INC_EDITS, "R4.1",
   "a second flag-guarded cache over in_event_sets; the loader adds incoming "
   "sets directly and never marks it stale (seed C04-h)")
TT("C04", "twin-incoming-cache-coherent", _INC_EDITS + [
    (EV, "            event.in_event_sets.add(\n                EventSet(\n                    [\n"
         "                        eventSet.eventType\n                        for eventSet in eventSetList\n"
         "                        for _ in range(eventSet.count)\n                    ]\n                )\n            )\n",
     "            event.update_in_event_sets(\n                [\n"
     "                    eventSet.eventType\n                    for eventSet in eventSetList\n"
     "                    for _ in range(eventSet.count)\n                ]\n            )\n")],
   "the same second cache with every writer going through the marking method")

# ============================================================ wave h (C07: break filter, R7.16)
_BF_OLD = '''        if any(
            out_edge[1].event_type == DUMMY_END_EVENT
            for out_edge in graph.out_edges([break_event])
        ) or break_event in get_outnodes_not_in_set(
            loop.end_events, loop.loop_events, graph
        ):
            dummy_break_event = Event(DUMMY_BREAK_EVENT_TYPE)
            for event, _ in list(graph.in_edges(break_event)):
'''
M("C07", "break-exit-of-all-ends", CUG, _BF_OLD,
  '''        in_events = set(graph.predecessors(break_event))
        if any(
            out_event.event_type == DUMMY_END_EVENT
            for out_event in graph.successors(break_event)
        ) or loop.end_events.issubset(in_events):
            dummy_break_event = Event(DUMMY_BREAK_EVENT_TYPE)
            for event in in_events:
''', "R7.16", "exit of ALL end events instead of SOME (seed C07-h)")
T("C07", "twin-break-filter-neighbours", CUG, _BF_OLD,
  '''        in_events = set(graph.predecessors(break_event))
        if any(
            out_event.event_type == DUMMY_END_EVENT
            for out_event in graph.successors(break_event)
        ) or break_event in get_outnodes_not_in_set(
            loop.end_events, loop.loop_events, graph
        ):
            dummy_break_event = Event(DUMMY_BREAK_EVENT_TYPE)
            for event in in_events:
''', "successors / predecessors instead of out_edges / in_edges")
M("C07", "dummy-break-no-successor-set", CUG,
  '''                    dummy_break_event.update_event_sets(
                        [break_event.event_type]
                    )
''', "", "R7.16", "dummy break without successor evidence")
M("C07", "break-kept-after-replacement", CUG,
  "            loop.break_events.remove(break_event)\n", "            pass\n",
  "R7.16", "the replaced break event stays a break event")
M("C07", "loop-node-ignores-break-exits", LEM,
  "loop.end_events | loop.break_events", "loop.end_events", "R7.14",
  "successor sets behind a break never reach the loop node")
M("C07", "loop-in-sets-from-out-direction", LEM,
  "                event.in_event_sets, loop_event_types",
  "                event.event_sets, loop_event_types", "R7.14",
  "loop node's predecessor sets read from the successor sets")
M("C07", "rewrite-after-removal", CUG,
  '''    remove_event_edges_and_event_sets(event_edges, graph)
    for event in events_into_start_events:
        graph.add_edge(event, loop_event)''',
  '''    for event in events_into_start_events:
        graph.add_edge(event, loop_event)''', "R7.13",
  "start boundary edges are never removed")
M("C07", "end-handler-wrong-direction", CUG,
  '''        for event_list_to_add in event_lists_to_add:
            event.update_in_event_sets(event_list_to_add)
    event_edges = {
        EventEdge(end_event, event)''',
  '''        for event_list_to_add in event_lists_to_add:
            event.update_event_sets(event_list_to_add)
    event_edges = {
        EventEdge(end_event, event)''', "R7.13",
  "end boundary rewrites the successor sets of the outside successors")
M("C07", "mirror-sets-swapped", CUG,
  "        out_event.remove_event_type_from_event_sets(in_event.event_type)",
  "        out_event.remove_event_type_from_event_sets(out_event.event_type)",
  "R7.13", "wrong type removed from the tail's successor sets")
M("C07", "nodes-removed-before-mirror-sets", CUG,
  '''    remove_event_edges_and_event_sets(
        {
            EventEdge(*edge)
            for edge in graph.out_edges(loop.loop_events)
        },
        graph
    )
    # remove all loop events
    graph.remove_nodes_from(loop.loop_events)''',
  '''    # remove all loop events
    graph.remove_nodes_from(loop.loop_events)''', "R7.13",
  "successors keep predecessor sets naming loop events")
M("C07", "break-edges-not-cut", SGL,
  "    remove_event_edges_and_event_sets(break_points_out_edges, graph)\n", "",
  "R7.15", "the body continues behind a break event")

# ============================================================ wave h (C01/C05: reshape lock-step)
for _P, _R in (("C01", "R1.14"), ("C05", "R5.15")):
    MM(_P, "path-indexes-ignore-finished", [
        (WALK, "        self._path_indexes = list(range(not_indices_len))\n",
         "        self._path_indexes = list(range(len(self.paths)))\n"),
        (WALK, "        self._path_indexes += [not_indices_len + merged_paths_indices_len]\n", "")],
       _R, "new node indexed as if no path had finished (seed C01-h)")
    M(_P, "merged-indexes-from-zero", WALK,
      "            range(not_indices_len, not_indices_len + merged_paths_indices_len)",
      "            range(merged_paths_indices_len)", _R,
      "finished index map restarts at 0")
    M(_P, "pop-forgets-merge-node", WALK,
      "            self.merge_nodes.pop()\n", "", _R,
      "merge_nodes keeps the entry of the finished path")
    M(_P, "pop-loses-finished-index", WALK,
      "            self._merged_path_indexes.append(self._path_indexes.pop())",
      "            self._path_indexes.pop()", _R,
      "the finished path's position is forgotten")
    M(_P, "merge-puml-nodes-from-indices", WALK,
      "        self.puml_nodes = [self.puml_nodes[index] for index in not_indices] + [",
      "        self.puml_nodes = [self.puml_nodes[index] for index in indices] + [",
      _R, "puml_nodes rebuilt from the merged instead of the kept paths")
    M(_P, "layout-new-node-first", WALK,
      '''                [self._path_indexes[index] for index in not_indices]
                + self._merged_path_indexes
            )
            + [new_node]
        )''',
      '''                self._merged_path_indexes
                + [self._path_indexes[index] for index in not_indices]
            )
            + [new_node]
        )''', _R, "outgoing logic laid out finished-first while the index "
      "maps assume kept-first")
    T(_P, "twin-index-maps-one-expression", WALK,
      '''        self._path_indexes = list(range(not_indices_len))
        self._merged_path_indexes = list(
            range(not_indices_len, not_indices_len + merged_paths_indices_len)
        )
        self._path_indexes += [not_indices_len + merged_paths_indices_len]''',
      '''        self._path_indexes = list(range(not_indices_len)) + [
            not_indices_len + merged_paths_indices_len
        ]
        self._merged_path_indexes = list(
            range(not_indices_len, not_indices_len + merged_paths_indices_len)
        )''', "same index maps, one expression")

# ============================================================ wave h (C12: per-trace uniqueness only)
M("C12", "span-id-unique-per-trace-only", DM,
  "    event_id: Mapped[str] = mapped_column(String, unique=True, nullable=False)",
  "    event_id: Mapped[str] = mapped_column(String, index=True, nullable=False)", "R12.5",
  "children joined by a bare id that is no longer a key (seed C12-h)")

# ============================================================ wave i (C16: hand-rolled memo)
_MEMO_OLD = '''    return datetime_to_pv_string(
        datetime.fromtimestamp(unix_nano / 1e9, tz=UTC)
    )
'''
_MEMO_NEW = '''    key = %s
    pv_string = _PV_STRING_CACHE.get(key)
    if pv_string is None:
        pv_string = datetime_to_pv_string(
            datetime.fromtimestamp(unix_nano / 1e9, tz=UTC)
        )
        _PV_STRING_CACHE[key] = pv_string
    return pv_string
'''
_MEMO_TABLE = ('def unix_nano_to_pv_string(unix_nano: int) -> str:',
               '_PV_STRING_CACHE: dict[int, str] = {}\n\n\n'
               'def unix_nano_to_pv_string(unix_nano: int) -> str:')
for _P, _R in (("C16", "R16.4"), ("C08", "R8.9")):
    MM(_P, "memo-key-coarser-than-value", [
        (UT, _MEMO_TABLE[0], _MEMO_TABLE[1]),
        (UT, _MEMO_OLD, _MEMO_NEW % "unix_nano // 10**3")], _R,
       "memo keyed by the truncated microsecond over a value rounded from "
       "the nanosecond (seed C16-i)")
    TT(_P, "twin-memo-full-key", [
        (UT, _MEMO_TABLE[0], _MEMO_TABLE[1]),
        (UT, _MEMO_OLD, _MEMO_NEW % "unix_nano")],
       "memo keyed by the whole argument")

# ============================================================ D7 (genuine defect, fixed in /repo 48c7bf0)
for _P, _R in (("C05", "R5.15"), ("C01", "R1.14")):
    M(_P, "d7-revert-pop", WALK,
      "            self.impossible_and_or_merges.pop()\n", "", _R,
      "a finished path keeps its impossible-merge flag (D7)")
    M(_P, "d7-revert-rebuild", WALK,
      '''        self.impossible_and_or_merges = [
            self.impossible_and_or_merges[index] for index in not_indices
        ] + [False]
''', "", _R, "a partial merge leaves the impossible-merge flags of the "
      "merged paths in place (D7)")

# ============================================================ waves i / j
for _P, _R in (("C05", "R5.14"), ("C07", "R7.12"), ("C01", "R1.15")):
    M(_P, "dummy-end-break-on-foreign-set", SGL,
      '''                    if event_set.to_frozenset().issubset(loop_event_types):
                        end_event.update_in_event_sets(event_set.to_list())''',
      '''                    if not event_set.to_frozenset().issubset(
                        loop_event_types
                    ):
                        break
                    end_event.update_in_event_sets(event_set.to_list())''',
      _R, "a foreign predecessor set ends the mirroring: the joint set that "
      "proves the fork join may never be copied (seed C05-i)")
    T(_P, "twin-dummy-end-continue", SGL,
      '''                    if event_set.to_frozenset().issubset(loop_event_types):
                        end_event.update_in_event_sets(event_set.to_list())''',
      '''                    if not event_set.to_frozenset().issubset(
                        loop_event_types
                    ):
                        continue
                    end_event.update_in_event_sets(event_set.to_list())''',
      "guard clause with continue")
M("C04", "model-file-strips-whitespace", EV,
  '''    eventType: str
    count: int
''', '''    model_config = {"str_strip_whitespace": True}

    eventType: str
    count: int
''', "R4.2", "event types are saved / reloaded stripped (seed C04-i)")
M("C14", "loader-drops-forward-links", P2P,
  "        out_data.append(transform_dict_into_pv_event(event, mapping_config))",
  '''        pv_event = transform_dict_into_pv_event(event, mapping_config)
        pv_event["previousEventIds"] = [
            i for i in pv_event["previousEventIds"] if i in seen
        ]
        seen.add(pv_event["eventId"])
        out_data.append(pv_event)''', "R14.7",
  "links to events listed later in the file are dropped (seed C14-i)")
T("C14", "twin-loader-temp", P2P,
  "        out_data.append(transform_dict_into_pv_event(event, mapping_config))",
  '''        pv_event = transform_dict_into_pv_event(event, mapping_config)
        out_data.append(pv_event)''', "through a temporary")
M("C04", "no-dummy-start-for-known-model", DI,
  "        add_dummy_start=add_dummy_start,\n    )\n    return update_and_create_events_from_graph_solutions(",
  "        add_dummy_start=add_dummy_start and not events,\n    )\n    return update_and_create_events_from_graph_solutions(", "R4.7",
  "jobs learned on top of a loaded model get no dummy start link (seed C04-j)")

# ============================================================ walkspec tables (R1.16-R1.19 / R5.16)
for _P, _R in (("C01", "R1.17"), ("C05", "R5.16")):
    M(_P, "block-paths-alias-node-logic", WALK,
      "        self.paths = logic_node.outgoing_logic.copy()",
      "        self.paths = logic_node.outgoing_logic", _R,
      "popping a finished path removes the alternative from the node")
    M(_P, "block-kill-flags-alias", WALK,
      "        self.loop_kill_paths = logic_node.is_loop_kill_path.copy()",
      "        self.loop_kill_paths = logic_node.is_loop_kill_path", _R,
      "loop-kill flags shared with the node")
for _P, _R in (("C01", "R1.16"), ("C05", "R5.16")):
    M(_P, "branch-marked-on-incoming", NODE,
      '''            if direction == "outgoing":
                root_node.update_event_types(PUMLEvent.BRANCH)''',
      '''            if direction != "outgoing":
                root_node.update_event_types(PUMLEvent.BRANCH)''', _R,
      "BRANCH handled for the wrong direction")
for _P, _R in (("C01", "R1.18"), ("C05", "R5.16")):
    M(_P, "xor-check-inverted", WALK,
      '        if self.logic_node.operator not in ["AND", "OR"]:\n            return True',
      '        if self.logic_node.operator in ["AND", "OR"]:\n            return True', _R,
      "AND / OR merges accepted anywhere")
    M(_P, "impossible-flag-not-set", WALK,
      "                    self.impossible_and_or_merges[index] = True\n",
      "                    pass\n", _R, "rejected AND / OR merge not flagged")
for _P, _R in (("C01", "R1.19"), ("C05", "R5.16")):
    M(_P, "merge-flag-from-counts", CNG,
      '''        if calculate_logic_gates(
            node.eventsets_incoming
        ).operator == Logic_operator.BRANCH:''',
      '''        if len(node.eventsets_incoming) > 1:''', _R,
      "MERGE decided from the number of predecessor sets (seed C01-f)")

# ============================================================ model table (R4.8 / R1.20)
for _P, _R in (("C04", "R4.8"), ("C01", "R1.20")):
    M(_P, "eventset-counts-capped", EV,
      "            self[event] = self.get(event, 0) + 1",
      "            self[event] = 1", _R, "an observation forgets repetitions")
    M(_P, "to-list-drops-counts", EV,
      '''        return list(
            event for event, count in self.items() for _ in range(count)
        )''', "        return list(self.keys())", _R,
      "listing an observation loses its multiplicities")
    M(_P, "remove-type-keeps-sets-wrong-polarity", EV,
      '''            for event_set in self.event_sets
            if event_type not in event_set''',
      '''            for event_set in self.event_sets
            if event_type in event_set''', _R,
      "removal keeps exactly the sets it should drop")
    T(_P, "twin-to-list-loop", EV,
      '''        return list(
            event for event, count in self.items() for _ in range(count)
        )''',
      '''        out = []
        for event, count in self.items():
            for _ in range(count):
                out.append(event)
        return out''', "nested loops instead of a generator")

# ============================================================ PUML table (R5.18), R5.17
M("C05", "activity-line-without-name", PG,
  '''        blocks.append(f"{' ' * indent}:{self.node_type}{branch_info};")''',
  '''        blocks.append(f"{' ' * indent}:{self.node_id[0]}_{self.node_id[1]}{branch_info};")''',
  "R5.18", "activity line carries the occurrence-numbered node id")
T("C05", "twin-registration-only-without-body", PG,
  "        if parent_graph_node is not None:\n            self.add_parent_graph_node_to_node_ref(",
  "        if parent_graph_node is not None and sub_graph is None:\n            self.add_parent_graph_node_to_node_ref(",
  "the registry is only read while bodies are attached, i.e. for nodes "
  "created without a body (triaged: was listed as a mutant)")
M("C05", "dummy-end-kept", PG,
  "            and node.node_type == DUMMY_END_EVENT",
  "            and node.node_type == DUMMY_START_EVENT", "R5.18",
  "the dummy end sink removes dummy starts")
M("C05", "simple-dummy-break-no-reattach", PG,
  '''            graph.add_puml_edge(
                dummy_break_event_in_node,
                dummy_break_event_out_node
            )''', "            pass", "R5.17",
  "what followed the dummy break is cut off")

# ============================================================ waves k / l
M("C07", "loop-name-from-count", LEM,
  '''    max_loop_event = 0
    for event in graph.nodes:
        if LOOP_EVENT_TYPE in event.event_type:
            max_loop_event = max(
                int(event.event_type.split("_")[1]),
                max_loop_event,
            )
    return f"{LOOP_EVENT_TYPE}_{max_loop_event + 1}"''',
  '''    num_loop_events = sum(
        1 for event in graph.nodes if LOOP_EVENT_TYPE in event.event_type
    )
    return f"{LOOP_EVENT_TYPE}_{num_loop_events + 1}"''', "R7.18",
  "loop numbered by the count of loop nodes present (seed C07-l)")
T("C07", "twin-loop-name-max-default", LEM,
  '''    max_loop_event = 0
    for event in graph.nodes:
        if LOOP_EVENT_TYPE in event.event_type:
            max_loop_event = max(
                int(event.event_type.split("_")[1]),
                max_loop_event,
            )
    return f"{LOOP_EVENT_TYPE}_{max_loop_event + 1}"''',
  '''    max_loop_event = max(
        (
            int(event.event_type.split("_")[1])
            for event in graph.nodes
            if LOOP_EVENT_TYPE in event.event_type
        ),
        default=0,
    )
    return f"{LOOP_EVENT_TYPE}_{max_loop_event + 1}"''',
  "max(.., default=0) instead of the accumulate loop")
MM("C04", "memoised-model-loader", [
    (EV, "def load_events_from_file(file_path: str) -> tuple[str, dict[str, Event]]:",
     "@lru_cache(maxsize=None)\ndef load_events_from_file(file_path: str) -> tuple[str, dict[str, Event]]:"),
    (EV, "from copy import deepcopy\n", "from copy import deepcopy\nfrom functools import lru_cache\n")],
   "R4.9", "the loaded model is shared between callers and updated in place (seed C04-k)")

# ============================================================ R7.17 / R7.19 / R5.18 linearisation
M("C07", "edge-without-evidence", CUG,
  '''        for event_list_to_add in event_lists_to_add:
            event.update_in_event_sets(event_list_to_add)
    for event in events_out_of_break_events:
        graph.add_edge(loop_event, event)''',
  '''    for event in events_out_of_break_events:
        graph.add_edge(loop_event, event)''', "R7.17",
  "edge loop node -> break successor without a predecessor set naming the loop node")
M("C07", "classifier-on-subgraph", "loop_detection/calculate_loop_components.py",
  "get_event_to_over_lapping_events_map(\n        graph\n    )",
  "get_event_to_over_lapping_events_map(\n        graph.subgraph(scc_events)\n    )",
  "R7.19", "overlap map of the component only (seed C07-k)")
M("C05", "linearise-from-any-source", PG,
  "        head_node = top_sort[0]", "        head_node = top_sort[-1]", "R5.18",
  "linearisation does not start at the first node in topological order (seed C05-k)")

# ============================================================ wave n/o
for _P, _R in (("C01", "R1.18"), ("C05", "R5.16")):
    M(_P, "merge-decision-revalidated", WALK,
      "        if self.will_merge and not self.loop_kill_paths[-1]:\n            return True\n",
      "", _R, "every later path re-validates the merge with one path fewer (seed C01-o)")
M("C05", "edge-to-kill-dropped", PG,
  "        super().add_edge(start_node, end_node, **attrs)",
  "        if not isinstance(end_node, PUMLKillNode):\n            super().add_edge(start_node, end_node, **attrs)",
  "R5.18", "edges into a kill node are silently dropped (seed C05-o)")

# ============================================================ wave n (C01-n, C05-n)
for _P, _R in (("C01", "R1.22"), ("C05", "R5.19")):
    M(_P, "kill-scan-skips-loop-nodes", "walk_puml_graph/find_and_add_loop_kill_paths.py",
      "            sub_graph_node.sub_graph,\n            sub_graph_node.sub_graph.nodes,",
      "            sub_graph_node.sub_graph,\n            [n for n in sub_graph_node.sub_graph.nodes if not isinstance(n, SubGraphNode)],",
      _R, "kill edges that start at a nested loop node are not found (seed C01-n)")
for _P, _R in (("C01", "R1.23"), ("C05", "R5.16")):
    M(_P, "restart-any-operator-node", WALK,
      "    if previous_puml_node == logic_list[-1].start_node:",
      "    if isinstance(previous_puml_node, PUMLOperatorNode):", _R,
      "a walked path that sits on a nested block's END operator is started again (seed C05-n)")

# ============================================================ wave p
for _P, _R in (("C07", "R7.20"), ("C01", "R1.24")):
    M(_P, "overlap-needs-two-sets", EV,
      "    graph: \"Graph[str]\" = Graph()\n    for event_set in event_sets:\n        if len(event_set) > 1:",
      "    graph: \"Graph[str]\" = Graph()\n    if len(event_sets) < 2:\n        return set()\n    for event_set in event_sets:\n        if len(event_set) > 1:",
      _R, "an event with a single successor set gets no overlap group (seed C01-p)")
MM("C04", "model-dict-shared-between-workflows", [
    (P2P, "        events: dict[str, Event] = {}\n        if job_name in events_to_jobs_map:",
          "        if job_name in events_to_jobs_map:"),
    (P2P, "    for job_name, job_event_gen in pv_streams:\n",
          "    events: dict[str, Event] = {}\n    for job_name, job_event_gen in pv_streams:\n")], "R4.4",
  "one dict is handed from workflow to workflow (seed C04-p)")

# ============================================================ triage D: behaviour-preserving edits (were candidate mutants)
for _P in ("C07", "C01"):
    T(_P, "twin-break-no-dummy-predecessor", CUG,
      "                    break_event.update_in_event_sets([DUMMY_BREAK_EVENT_TYPE])\n", "",
      "the singleton predecessor set {DUMMY_BREAK} decides no merge (triaged)")
    T(_P, "twin-dummies-not-in-loop-events", SGL,
      "    add_end_event_to_graph(end_event, loop, graph, end_event_to_event_lists)\n"
      "    loop.loop_events.add(start_event)\n    loop.loop_events.add(end_event)\n",
      "    add_end_event_to_graph(end_event, loop, graph, end_event_to_event_lists)\n",
      "the loop object of the body is a local deep copy nobody reads afterwards (triaged)")
    T(_P, "twin-entries-not-cut", SGL,
      "    remove_event_edges_and_event_sets(start_points_in_edges, graph)\n", "",
      "outside predecessors are pruned with their mirror sets a few statements later (triaged)")
    T(_P, "twin-end-boundary-edges-not-removed", CUG,
      "    remove_event_edges_and_event_sets(event_edges, graph)\n    for event in events_out_of_end_events:\n        graph.add_edge(loop_event, event)",
      "    for event in events_out_of_end_events:\n        graph.add_edge(loop_event, event)",
      "the orchestration removes every out-edge of the loop's events right after (triaged)")

# ============================================================ D9 (genuine defect, fixed in /repo 5a2a09c)
M("C05", "d9-revert", CUG,
  "                ) and event not in loop.end_events and (\n                    event in loop.loop_events\n                ):",
  "                ) and event not in loop.end_events:", "R5.20",
  "a dummy break behind an event that is only reachable from the loop (D9)")
M("C07", "d9-revert", CUG,
  "                ) and event not in loop.end_events and (\n                    event in loop.loop_events\n                ):",
  "                ) and event not in loop.end_events:", "R7.16",
  "a dummy break behind an event that is only reachable from the loop: "
  "`break` outside the repeat (D9)")
T("C07", "twin-d9-membership-only", CUG,
  '''                if has_path_back_to_chosen_nodes(
                    event, loop.loop_events.difference(loop.end_events), graph
                ) and event not in loop.end_events and (
                    event in loop.loop_events
                ):''',
  '''                if event in loop.loop_events and (
                    event not in loop.end_events
                ):''',
  "the reachability test is implied for an event of the loop")

# ============================================================ waves q / r
for _P, _R in (("C01", "R1.17"), ("C05", "R5.16")):
    M(_P, "selection-loses-callers-order", NODE,
      "        return [self.outgoing_logic[index] for index in indices]",
      "        return [n for i, n in enumerate(self.outgoing_logic) if i in indices]",
      _R, "alternatives returned in list order instead of the order asked for (seed C01-r)")
M("C05", "first-loop-body-only", PG,
  "                remove_dummy_start_and_end_events_from_nested_graphs(\n                    node.sub_graph\n                )",
  "                return remove_dummy_start_and_end_events_from_nested_graphs(\n                    node.sub_graph\n                )",
  "R5.4", "only the first loop body of a level is cleaned (seed C05-q)")
T("C01", "twin-no-incoming-registration", CNG,
  '    in_node.update_node_list_with_node(out_node, "incoming")\n', "",
  "Node.incoming is never read by the pipeline (differential validation)")
for _P, _R in (("C01", "R1.18"), ("C05", "R5.16")):
    M(_P, "merge-scan-stops-at-first-miss", WALK,
      '''        if has_path(node_class_graph, path_node, node):
            # check if there is at least one incoming node that has a path to
            # the path_node and not through the current path of the logic block
            # holder and does not have outgoing logic
            for in_node, _ in node_class_graph.in_edges(node):
                if has_path(node_class_graph, path_node, in_node):
                    if not in_node.outgoing_logic:
                        return True''',
      '''        if not has_path(node_class_graph, path_node, node):
            break
        for in_node, _ in node_class_graph.in_edges(node):
            if has_path(node_class_graph, path_node, in_node):
                if not in_node.outgoing_logic:
                    return True''', _R,
      "the scan over sibling leaves stops at the first one that cannot reach the node (seed C01-q)")
    T(_P, "twin-merge-scan-guard-clause", WALK,
      '''        if has_path(node_class_graph, path_node, node):
            # check if there is at least one incoming node that has a path to
            # the path_node and not through the current path of the logic block
            # holder and does not have outgoing logic
            for in_node, _ in node_class_graph.in_edges(node):
                if has_path(node_class_graph, path_node, in_node):
                    if not in_node.outgoing_logic:
                        return True''',
      '''        if not has_path(node_class_graph, path_node, node):
            continue
        for in_node, _ in node_class_graph.in_edges(node):
            if has_path(node_class_graph, path_node, in_node):
                if not in_node.outgoing_logic:
                    return True''', "guard clause with continue")

# ============================================================ waves s / t
for _P, _R in (("C01", "R1.25"), ("C05", "R5.21")):
    M(_P, "impossible-merge-steps-all-paths", WALK,
      '''                for i in range(len(logic_block.paths)):
                    if logic_block.merge_nodes[i] == next_node_class:
                        new_puml_node, _ = update_puml_graph_with_event_node(
                            puml_graph,
                            next_node_class,
                            logic_block.puml_nodes[i],
                        )
                        logic_block.puml_nodes[i] = new_puml_node
                        logic_block.paths[i] = next_node_class''',
      '''                for i in range(len(logic_block.paths)):
                    new_puml_node, _ = update_puml_graph_with_event_node(
                        puml_graph,
                        next_node_class,
                        logic_block.puml_nodes[i],
                    )
                    logic_block.puml_nodes[i] = new_puml_node
                    logic_block.paths[i] = next_node_class''', _R,
      "every path of the block steps over the rejected merge node (seed C01-s)")
for _P, _R in (("C07", "R7.13"), ("C01", "R1.15")):
    M(_P, "prune-before-break-rewire", CUG,
      '''    update_graph_for_break_events_with_path_to_root_event(
        break_events_with_path_back_to_root,
        loop.loop_events,
        loop_event,
        graph,
    )
    remove_nodes_without_path_back_to_loop(
        set(graph.nodes), {root_event}, graph
    )''',
      '''    remove_nodes_without_path_back_to_loop(
        set(graph.nodes), {root_event}, graph
    )
    update_graph_for_break_events_with_path_to_root_event(
        break_events_with_path_back_to_root,
        loop.loop_events,
        loop_event,
        graph,
    )''', _R, "the unreachable remainder is pruned before the break events "
      "are re-attached (seed C07-s)")
M("C13", "event-model-rejects-zero-duration", "otel_to_pv/otel_to_pv_types.py",
  "class OTelEvent(BaseModel):", '''class OTelEvent(BaseModel):
    @model_validator(mode="after")
    def verify_timestamps(self):
        if self.end_timestamp <= self.start_timestamp:
            raise ValueError("end before start")
        return self
''', "R13.2", "a validator rejects spans the documented extraction yields (seed C13-s)")
M("C04", "loader-skips-an-entry", EV,
  "        event = Event(eventInput.eventType)\n        for eventSetList in eventInput.outgoingEventSets:",
  "        if eventInput.eventType in (DUMMY_END_EVENT):\n            continue\n        event = Event(eventInput.eventType)\n        for eventSetList in eventInput.outgoingEventSets:",
  "R4.2", "an entry of the model file is skipped on load (seed C04-s)")
M("C05", "rendering-counts-on-the-node", PG,
  "        blocks = []\n        blocks.append(f\"{' ' * indent}:{self.node_type}{branch_info};\")",
  "        blocks = []\n        self.extra_info[\"rendered\"] = True\n        blocks.append(f\"{' ' * indent}:{self.node_type}{branch_info};\")",
  "R5.22", "rendering leaves state on the node: a shared loop body is "
  "rendered several times (seed C05-t)")

T("C05", "twin-rotate-start-not-recorded", WALK,
  '''            puml_graph, logic_list, previous_node_class
        )
        logic_list[-1].current_path_puml_node = previous_puml_node
    return previous_puml_node, previous_node_class


def handle_reach_logic_merge_point(''',
  '''            puml_graph, logic_list, previous_node_class
        )
    return previous_puml_node, previous_node_class


def handle_reach_logic_merge_point(''',
  "the slot of the current path is overwritten by the next rotation or "
  "dropped by the pop before anything reads it (triaged with a poison "
  "value over 1600 job families: was demanded by R5.16)")
M("C05", "rotate-restarts-walked-path", WALK,
  "    if previous_puml_node == logic_list[-1].start_node:\n        previous_puml_node, previous_node_class = handle_logic_list_next_path(",
  "    if previous_puml_node != logic_list[-1].end_node:\n        previous_puml_node, previous_node_class = handle_logic_list_next_path(",
  "R5.16", "a path that was already walked is started again after a rotation")

# ---- R7.21 neighbourhood / reachability helpers
M("C07", "innodes-returns-inside", UT,
  "        edge[0]\n        for edge in graph.in_edges(nodes)\n        if edge[0] not in nodes_to_check\n    )",
  "        edge[0]\n        for edge in graph.in_edges(nodes)\n        if edge[0] in nodes_to_check\n    )",
  "R7.21", "predecessors INSIDE the set are returned")
M("C07", "innodes-returns-heads", UT,
  "    return set(\n        edge[0]\n        for edge in graph.in_edges(nodes)\n        if edge[0] not in nodes_to_check",
  "    return set(\n        edge[1]\n        for edge in graph.in_edges(nodes)\n        if edge[0] not in nodes_to_check",
  "R7.21", "the heads of the in-edges instead of their tails")
M("C07", "outedges-in-set-tests-tail", UT,
  "        for edge in graph.out_edges(nodes)\n        if edge[1] in nodes_to_check",
  "        for edge in graph.out_edges(nodes)\n        if edge[0] in nodes_to_check",
  "R7.21", "membership tested on the node itself, not on its successor")
M("C07", "path-back-direction", UT,
  "        if nx.has_path(graph, node_to_find_path_from, node):",
  "        if nx.has_path(graph, node, node_to_find_path_from):",
  "R7.21", "reachability asked in the other direction")
M("C07", "without-path-yields-with-path", UT,
  "        if not has_path_back_to_chosen_nodes(\n            node, nodes_to_find_path_from, graph\n        ):\n            yield node",
  "        if has_path_back_to_chosen_nodes(\n            node, nodes_to_find_path_from, graph\n        ):\n            yield node",
  "R7.21", "the nodes WITH a path are reported for pruning")
T("C07", "twin-innodes-nested-loops", UT,
  "    return set(\n        edge[0]\n        for edge in graph.in_edges(nodes)\n        if edge[0] not in nodes_to_check\n    )",
  "    found = set()\n    for node in nodes:\n        for pred in graph.predecessors(node):\n            if pred in nodes_to_check:\n                continue\n            found.add(pred)\n    return found",
  "nested loops with a guard clause instead of the edge-list comprehension")
T("C07", "twin-path-back-any", UT,
  "    for node_to_find_path_from in nodes_to_find_path_from:\n        if nx.has_path(graph, node_to_find_path_from, node):\n            return True\n    return False",
  "    return any(\n        nx.has_path(graph, chosen, node) for chosen in nodes_to_find_path_from\n    )",
  "any() instead of the search loop")
T("C07", "twin-outedges-unpacked", UT,
  "    return set(\n        edge[0]\n        for edge in graph.out_edges(nodes)\n        if edge[1] in nodes_to_check\n    )",
  "    return {tail for tail, head in graph.out_edges(nodes) if head in nodes_to_check}",
  "tuple unpacking + set comprehension")

# ---- merge-point handler (R5.21 / R1.25); each has a demonstration under
# /verif/mutant_demos/<id>/ (triaged after the random families showed no
# difference: hang, exception or a lost W-merge)
M("C05", "mp-counter-not-reset", WALK,
  "            logic_block.merge_counter = 0\n            # handle case of impossible and/or merge",
  "            # handle case of impossible and/or merge",
  "R5.21", "the stuck counter survives the stuck round (hang)")
M("C05", "mp-counter-reset-to-one", WALK,
  "            logic_block.merge_counter = 0\n            # handle case of impossible and/or merge",
  "            logic_block.merge_counter = 1\n            # handle case of impossible and/or merge",
  "R5.21", "the search for the flagged path never advances (hang)")
M("C05", "mp-clears-other-paths-flags", WALK,
  "                    if merge_node == next_node_class:\n                        logic_block.impossible_and_or_merges[index] = False",
  "                    if merge_node != next_node_class:\n                        logic_block.impossible_and_or_merges[index] = False",
  "R5.21", "flags of the paths that were NOT advanced are cleared")
M("C05", "mp-flags-not-cleared", WALK,
  "                    if merge_node == next_node_class:\n                        logic_block.impossible_and_or_merges[index] = False",
  "                    if merge_node == next_node_class:\n                        pass",
  "R5.21", "a later valid merge of the advanced paths is lost")
M("C05", "mp-stuck-rotate-args-crossed", WALK,
  "                return logic_block.rotate_path(\n                    previous_node_class, previous_puml_node\n                )",
  "                return logic_block.rotate_path(\n                    previous_puml_node, previous_node_class\n                )",
  "R5.21", "model node and diagram node stored in each other's list")

M("C07", "scc-smallest-first", DL,
  "    scc_events = list(strongly_connected_components(graph))",
  "    scc_events = sorted(strongly_connected_components(graph), key=len)",
  "R7.1", "components re-ordered (seed C01-u)")
M("C01", "scc-reversed", DL,
  "    scc_events = list(strongly_connected_components(graph))",
  "    scc_events = reversed(list(strongly_connected_components(graph)))",
  "R1.15", "outer loops collapsed before the loops behind their break paths")
T("C07", "twin-scc-direct-iteration", DL,
  "    scc_events = list(strongly_connected_components(graph))\n    for scc_nodes in scc_events:",
  "    for scc_nodes in tuple(strongly_connected_components(graph)):",
  "same order, no temporary")

M("C05", "sink-failure-swallowed", PG,
  "    for dummy_break_event_node in dummy_break_event_nodes:\n        update_graph_for_dummy_break_event_node(dummy_break_event_node, graph)",
  "    for dummy_break_event_node in dummy_break_event_nodes:\n        try:\n            update_graph_for_dummy_break_event_node(\n                dummy_break_event_node, graph\n            )\n        except NotImplementedError:\n            continue",
  "R5.4", "an unresolvable break point is skipped; the placeholder is written (seed C05-u)")
T("C05", "twin-sink-failure-rewrapped", PG,
  "    for dummy_break_event_node in dummy_break_event_nodes:\n        update_graph_for_dummy_break_event_node(dummy_break_event_node, graph)",
  "    for dummy_break_event_node in dummy_break_event_nodes:\n        try:\n            update_graph_for_dummy_break_event_node(\n                dummy_break_event_node, graph\n            )\n        except NotImplementedError as error:\n            raise NotImplementedError(\n                f\"unsupported break point: {error}\"\n            ) from error",
  "the failure still aborts the conversion, with a better message")

M("C01", "event-with-gate-stands-for-leaves", NODE,
  "    return (\n        node.traverse_logic(\"outgoing\")\n        if node.operator is not None\n        else [node]\n    )",
  "    return node.traverse_logic(\"outgoing\") or [node]",
  "R1.22", "an event node that owns a gate is replaced by the gate's leaves (seed C01-v)")
T("C01", "twin-node-as-list-if-statement", NODE,
  "    return (\n        node.traverse_logic(\"outgoing\")\n        if node.operator is not None\n        else [node]\n    )",
  "    if node.operator is None:\n        return [node]\n    return node.traverse_logic(\"outgoing\")",
  "guard clause instead of the conditional expression")

# ---- R7.22 loop component classification
CLC = "loop_detection/calculate_loop_components.py"
M("C07", "break-search-from-all-exits", CLC,
  "            break_nodes = get_break_nodes_if_end_to_start_exists(\n                end_nodes,",
  "            break_nodes = get_break_nodes_if_end_to_start_exists(\n                nodes_that_exit_loop,",
  "R7.22", "exit points computed from every leaving event, not from the end events (seed C07-v)")
M("C07", "break-candidates-include-ends", CLC,
  "        break_out_nodes = nodes_that_exit_loop.difference(end_nodes_with_exits)",
  "        break_out_nodes = nodes_that_exit_loop.union(end_nodes_with_exits)",
  "R7.22", "end events with exits become break-out candidates")
M("C07", "exit-points-keep-end-events", CLC,
  "    exit_points.difference_update(end_nodes)\n",
  "",
  "R7.22", "end events count as exit points of other end events")
M("C07", "loop-edges-to-end", CLC,
  "    loop_edges = get_loop_edges(start_nodes, end_nodes, graph)",
  "    loop_edges = get_loop_edges(end_nodes, start_nodes, graph)",
  "R7.22", "roles of start and end events crossed for the loop-back edges")
T("C07", "twin-break-candidates-minus-all-ends", CLC,
  "        break_out_nodes = nodes_that_exit_loop.difference(end_nodes_with_exits)",
  "        break_out_nodes = nodes_that_exit_loop - end_nodes",
  "EXIT minus (END and EXIT) = EXIT minus END")
T("C07", "twin-end-exits-operator", CLC,
  "        end_nodes_with_exits = end_nodes.intersection(nodes_that_exit_loop)",
  "        end_nodes_with_exits = nodes_that_exit_loop & end_nodes",
  "operator spelling, operands swapped")

# ---- crossed positional hand-offs (R1.26 / R5.23 / R7.23)
M("C07", "handoff-crossed-filter", DL,
  "        filter_and_replace_breaks_connected_to_end_events(graph, loop)",
  "        filter_and_replace_breaks_connected_to_end_events(loop, graph)",
  "R7.23", "graph and loop crossed")
M("C01", "handoff-crossed-create-loop-event", DL,
  "        loop_event = create_loop_event(loop, sub_graph, graph)",
  "        loop_event = create_loop_event(sub_graph, loop, graph)",
  "R1.26", "loop and body crossed")
M("C05", "handoff-crossed-rotate", WALK,
  "    previous_puml_node, previous_node_class = handle_rotate_path(\n            puml_graph, logic_list, previous_puml_node, previous_node_class\n        )",
  "    previous_puml_node, previous_node_class = handle_rotate_path(\n            puml_graph, logic_list, previous_node_class, previous_puml_node\n        )",
  "R5.23", "model node and diagram node crossed")

# ---- R5.24 dummy break beneath nested XOR starts
M("C05", "pushdown-break-on-other-branches", PG,
  "                if out_node == dummy_break_event_node:\n                    graph.remove_node(dummy_break_event_node)",
  "                if out_node != dummy_break_event_node:\n                    graph.remove_node(dummy_break_event_node)",
  "R5.24", "the BREAK goes to the branches that do not break")
M("C05", "pushdown-copy-loses-body", PG,
  "                    event_types=event_node.event_types,\n                    sub_graph=event_node.sub_graph,\n                    parent_graph_node=event_node.parent_graph_node,\n                )\n                if out_node == dummy_break_event_node:",
  "                    event_types=event_node.event_types,\n                    parent_graph_node=event_node.parent_graph_node,\n                )\n                if out_node == dummy_break_event_node:",
  "R5.24", "a copied loop node has no body")
M("C05", "pushdown-old-edge-kept", PG,
  "                    graph.remove_edge(operator_node, out_node)\n",
  "",
  "R5.24", "the branch is reachable both directly and behind the copy")
M("C05", "pushdown-accepts-and-ancestor", PG,
  "                PUMLOperatorNodes.START_AND,\n                PUMLOperatorNodes.END_AND,",
  "                PUMLOperatorNodes.END_AND,",
  "R5.24", "a break beneath an AND start is pushed down as if it were an XOR")
M("C05", "pushdown-event-not-bridged", PG,
  "    graph.remove_node(event_node)\n    graph.add_puml_edge(event_node_in_node, event_node_out_node)",
  "    graph.remove_node(event_node)",
  "R5.24", "the line is cut where the breaking event stood")
T("C05", "twin-pushdown-refused-list-reordered", PG,
  "                PUMLOperatorNodes.START_AND,\n                PUMLOperatorNodes.END_AND,\n                PUMLOperatorNodes.START_OR,\n                PUMLOperatorNodes.END_OR,\n                PUMLOperatorNodes.END_XOR",
  "                PUMLOperatorNodes.END_XOR,\n                PUMLOperatorNodes.START_AND,\n                PUMLOperatorNodes.START_OR,\n                PUMLOperatorNodes.END_AND,\n                PUMLOperatorNodes.END_OR",
  "membership list in another order")
T("C05", "twin-pushdown-continue", PG,
  "            if out_node == child_operator:\n                pass\n            else:\n                new_event_node = graph.create_event_node(",
  "            if out_node != child_operator:\n                new_event_node = graph.create_event_node(",
  "negated test instead of pass / else")

# ---- next path / merge point reached (R1.23 = R5.16)
M("C01", "next-path-operator-drawn-as-event", WALK,
  "    elif next_node_class.operator is not None:\n        previous_node_class = next_node_class\n        previous_puml_node = logic_list[-1].start_node",
  "    elif next_node_class.operator is None:\n        previous_node_class = next_node_class\n        previous_puml_node = logic_list[-1].start_node",
  "R1.23", "operator paths are drawn as events and event paths are skipped")
M("C05", "merge-point-resumes-from-start", WALK,
  "    else:\n        previous_puml_node = logic_list[-1].current_path_puml_node\n        previous_node_class = next_node_class\n    return previous_puml_node, previous_node_class",
  "    else:\n        previous_puml_node = logic_list[-1].start_node\n        previous_node_class = next_node_class\n    return previous_puml_node, previous_node_class",
  "R5.16", "a walked path is resumed from the block's start operator")
M("C01", "merge-point-keeps-stale-class", WALK,
  "        previous_puml_node = logic_list[-1].current_path_puml_node\n        previous_node_class = next_node_class\n    return previous_puml_node, previous_node_class",
  "        previous_puml_node = logic_list[-1].current_path_puml_node\n    return previous_puml_node, previous_node_class",
  "R1.23", "the walk resumes the diagram node of one path with the model node of another")
TT("C01", "twin-next-path-direct-returns", [
    (WALK, '''    if next_node_class is None:
        previous_puml_node: PUMLNode = logic_list.pop().end_node
''', '''    if next_node_class is None:
        return logic_list.pop().end_node, previous_node_class
'''),
    (WALK, '''    elif next_node_class.operator is not None:
        previous_node_class = next_node_class
        previous_puml_node = logic_list[-1].start_node
''', '''    if next_node_class.operator is not None:
        return logic_list[-1].start_node, next_node_class
'''),
    (WALK, '''    else:
        previous_puml_node, previous_node_class = (
            update_puml_graph_with_event_node(
                puml_graph, next_node_class, logic_list[-1].start_node
            )
        )
    return previous_puml_node, previous_node_class
''', '''    return update_puml_graph_with_event_node(
        puml_graph, next_node_class, logic_list[-1].start_node
    )
'''),
], "early returns instead of assignments joined by one return")

# ---- R1.27 faithful records
LTY = "loop_detection/loop_types.py"
M("C01", "record-attribute-never-assigned", NODE,
  "        self.uid = uid\n", "", "R1.27", "Node.uid is read but not assigned")
M("C01", "record-default-drops-given-value", NODE,
  "        self.incoming = [] if incoming is None else incoming",
  "        self.incoming = [] if incoming is not None else incoming",
  "R1.27", "a given list of incoming nodes is replaced by the default")
M("C01", "record-write-once-setter-inverted", LTY,
  "        if self._start_uid is None:\n            self._start_uid = start_uid",
  "        if self._start_uid is not None:\n            self._start_uid = start_uid",
  "R1.27", "the start uid can only be set when it is already set")
M("C01", "record-getter-guard-inverted", LTY,
  "        if self._end_uid is None:\n            raise AttributeError(\"end_uid is not set.\")",
  "        if self._end_uid is not None:\n            raise AttributeError(\"end_uid is not set.\")",
  "R1.27", "the getter raises exactly when the value is there")
M("C01", "record-base-not-initialised", PG,
  "        self.subgraph_nodes: set[PUMLEventNode] = set()\n        super().__init__()",
  "        self.subgraph_nodes: set[PUMLEventNode] = set()",
  "R1.27", "the DiGraph base of PUMLGraph is never initialised")
T("C01", "twin-record-default-other-spelling", NODE,
  "        self.incoming = [] if incoming is None else incoming",
  "        self.incoming = incoming if incoming is not None else []",
  "same default handling, arms swapped")

# ---- R1.28 model nodes
M("C01", "outgoing-logic-over-incoming-map", NODE,
  "        if direction == \"incoming\":\n            event_node_map = self.event_node_map_incoming\n        else:\n            event_node_map = self.event_node_map_outgoing",
  "        if direction != \"incoming\":\n            event_node_map = self.event_node_map_incoming\n        else:\n            event_node_map = self.event_node_map_outgoing",
  "R1.28", "the gate tree of the successors is resolved against the predecessors")
M("C01", "lonely-merge-is-a-kill-path", NODE,
  "            if not path:", "            if path:", "R1.28",
  "the lonely merge becomes the kill path")
TT("C01", "twin-dead-incoming-branch-removed", [
    (NODE, "        if direction == \"incoming\":\n            event_node_map = self.event_node_map_incoming\n        else:\n            event_node_map = self.event_node_map_outgoing",
     "        event_node_map = self.event_node_map_outgoing"),
], "the pipeline only ever loads outgoing logic")

# ---- triaged behaviour-preserving edits in node.py (were demanded by R1.16 / R1.28)
T("C01", "twin-leaf-not-in-operator-outgoing", NODE,
  "                getattr(self, direction).append(\n                    event_node_map[logic_tree.label]\n                )\n",
  "",
  "nobody reads .outgoing of an operator node (poison run: 0 reads in 800 families)")
T("C01", "twin-stub-flag-not-set", NODE,
  "                    event_type=logic_tree.label,\n                    is_stub=True,\n",
  "                    event_type=logic_tree.label,\n",
  "the flag of a stub is never read: stubs are not nodes of the graph")
T("C01", "twin-derived-kill-flag-not-stored", NODE,
  "                self.is_loop_kill_path[index] = node.all_paths_are_loop_kill()\n",
  "",
  "the derived flag is always False written onto False (induction over the gate tree)")
# ---- and the demonstrated ones (mutant_demos/<id>)
M("C01", "set-outgoing-logic-not-stored", NODE,
  "        self.outgoing_logic = outgoing_logic\n",
  "        pass\n",
  "R1.17", "the block rewrites a logic node whose alternatives stay the old ones")
M("C01", "traverse-logic-not-recursive", NODE,
  "            else:\n                nodes.extend(node.traverse_logic(direction))\n",
  "",
  "R1.22", "leaves of nested operators are missing: an AND of XORs counts as a kill path")
M("C01", "kill-paths-not-searched-in-nested-gates", NODE,
  "                node.update_loop_kill_paths_from_given_leaf_nodes(leaf_nodes)\n",
  "",
  "R1.28", "a kill leaf inside a nested gate is not marked")
M("C01", "lonely-merge-single-path", NODE,
  "        if len(self.is_loop_kill_path) <= 1:",
  "        if len(self.is_loop_kill_path) < 1:",
  "R1.28", "a gate with one path gets a lonely merge")

T("C07", "twin-break-set-not-reduced-by-scc", CLC,
  "    break_nodes.difference_update(scc_nodes)\n", "",
  "both sources of break nodes already exclude the events of the SCC")

M("C05", "rotate-head-from-second-last", WALK,
  "        self.merge_nodes = [self.merge_nodes[-1]] + self.merge_nodes[:-1]",
  "        self.merge_nodes = [self.merge_nodes[-2]] + self.merge_nodes[:-1]",
  "R5.10", "the merge node that moves to the front is not the one of the path that moves")
M("C01", "merge-counter-never-counts", WALK,
  "        if self.merge_nodes[-1] == potential_merge_node:\n            self.merge_counter += 1",
  "        if self.merge_nodes[-1] != potential_merge_node:\n            self.merge_counter += 1",
  "R1.18", "the stuck counter counts changes instead of repetitions")
M("C05", "lonely-path-closed-at-lonely-merge", WALK,
  "            if node != logic_block_holder.logic_node.lonely_merge:\n                return True",
  "            if node == logic_block_holder.logic_node.lonely_merge:\n                return True",
  "R5.16", "the lonely-merge path is closed exactly at the node it should run through")
M("C01", "event-node-opens-its-own-block", WALK,
  "    if previous_node_class.operator is None:\n        logic_node = previous_node_class.outgoing_logic[0]",
  "    if previous_node_class.operator is not None:\n        logic_node = previous_node_class.outgoing_logic[0]",
  "R1.23", "an event node is taken for the gate it owns and vice versa")

# ---- ingestion / graph construction / partition of break events
M("C01", "graph-edges-from-predecessor-sets", "tel2puml/events.py",
  "            event_ref[event_type]\n            for event_set in event.event_sets\n",
  "            event_ref[event_type]\n            for event_set in event.in_event_sets\n",
  "R1.28", "edges of the event graph run to the predecessors")
M("C07", "break-partition-path-direction", CUG,
  "        event for event in loop.break_events if not has_path(\n            graph, root_event, event\n        )",
  "        event for event in loop.break_events if not has_path(\n            graph, event, root_event\n        )",
  "R7.22", "break events are classified by whether THEY reach the root")
M("C07", "end-of-ends-inverted", CLC,
  "        int(has_path(graph, other_node, node))\n        - int(has_path(graph, node, other_node))",
  "        int(has_path(graph, node, other_node))\n        - int(has_path(graph, other_node, node))",
  "R7.22", "the FIRST of several potential end events is taken for the end")
M("C01", "dummy-start-not-linked", "pv_to_puml/data_ingestion.py",
  "        dummy_start_event.add_post_event(start_event)\n", "",
  "R1.28", "the dummy start has no successors")

M("C07", "break-filter-not-run", DL,
  "        filter_and_replace_breaks_connected_to_end_events(graph, loop)\n", "",
  "R7.13", "break events that touch the exit are never replaced by dummy breaks")
M("C07", "break-filter-after-carving", DL,
  "        filter_and_replace_breaks_connected_to_end_events(graph, loop)\n        sub_graph, start_event, end_event = create_sub_graph_of_loop(\n            loop, graph\n        )\n",
  "        sub_graph, start_event, end_event = create_sub_graph_of_loop(\n            loop, graph\n        )\n        filter_and_replace_breaks_connected_to_end_events(graph, loop)\n",
  "R7.13", "the body is carved before the dummy breaks exist")

# ---- wave x
M("C07", "pruned-set-extended", SGL,
  "    remove_event_sets_mirroring_removed_edges(\n        set(\n            EventEdge(*edge)\n            for edge in sub_graph.out_edges(nodes_without_path_back)",
  "    nodes_without_path_back.update(\n        node for node in sub_graph.nodes if sub_graph.out_degree(node) == 0\n    )\n    remove_event_sets_mirroring_removed_edges(\n        set(\n            EventEdge(*edge)\n            for edge in sub_graph.out_edges(nodes_without_path_back)",
  "R7.15", "dead-end events are pruned from the body as well (seed C07-x)")
M("C14", "save-failure-swallowed", "otel_to_pv/otel_to_pv.py",
  "            handle_save_events(\n                job_name,\n                pv_event_streams,\n                output_file_directory,\n                mapping_config,\n            )",
  "            try:\n                handle_save_events(\n                    job_name,\n                    pv_event_streams,\n                    output_file_directory,\n                    mapping_config,\n                )\n            except OSError:\n                continue",
  "R14.8", "a job file that cannot be written is skipped (seed C14-x)")
T("C14", "twin-save-failure-rewrapped", "otel_to_pv/otel_to_pv.py",
  "            handle_save_events(\n                job_name,\n                pv_event_streams,\n                output_file_directory,\n                mapping_config,\n            )",
  "            try:\n                handle_save_events(\n                    job_name,\n                    pv_event_streams,\n                    output_file_directory,\n                    mapping_config,\n                )\n            except OSError as error:\n                raise OSError(f\"cannot save events of {job_name}\") from error",
  "the failure still aborts the export")
M("C01", "events-rebound-when-empty", "pv_to_puml/data_ingestion.py",
  "    if events is None:\n        events = {}\n    for graph_solution in graph_solutions:",
  "    if not events:\n        events = {}\n    for graph_solution in graph_solutions:",
  "R1.30", "an empty model passed in is replaced, the caller saves its own empty dict (seed C01-x)")

M("C07", "breaks-with-path-set-extended", CUG,
  "    update_graph_for_break_events_with_path_to_root_event(\n        break_events_with_path_back_to_root,",
  "    break_events_with_path_back_to_root.update(loop.end_events)\n    update_graph_for_break_events_with_path_to_root_event(\n        break_events_with_path_back_to_root,",
  "R7.11 R7.13 R7.22", "a computed set is extended in place before it is handed on")

# ---- R1.31 the gate tree goes through every stage (seed C01-y) --------------
M("C01", "gate-fast-path-skips-repeat-marker", LD,
  "    process_tree = calculate_process_tree_from_event_sets(event_sets)\n    logic_gate_tree = reduce_process_tree_to_preferred_logic_gates(",
  "    if len(event_sets) == 1:\n        (event_set,) = event_sets\n        if len(event_set) == 1:\n            (label,) = event_set\n            return ProcessTree(label=label)\n    process_tree = calculate_process_tree_from_event_sets(event_sets)\n    logic_gate_tree = reduce_process_tree_to_preferred_logic_gates(",
  "R1.31", "a lone successor type bypasses the repeat marker: {B: 2} is drawn as one B (seed C01-y)")
M("C01", "gate-tree-returned-before-repeats", LD,
  "    return logic_gate_tree_with_repeats\n",
  "    return logic_gate_tree\n",
  "R1.31", "the tree without the repeat marker is handed out")
M("C01", "gate-reduction-skipped", LD,
  "    logic_gate_tree_with_repeats = calculate_repeats_in_tree(\n        event_sets, logic_gate_tree\n    )",
  "    logic_gate_tree_with_repeats = calculate_repeats_in_tree(\n        event_sets, process_tree\n    )",
  "R1.31", "the repeat stage works on the unreduced miner tree")
M("C01", "no-gate-tree-for-single-observation", LD,
  "    if len(event_sets) == 0:\n        return None\n    process_tree",
  "    if len(event_sets) <= 1:\n        return None\n    process_tree",
  "R1.31", "an event with one observed successor set gets no gate tree")
T("C01", "twin-gate-stages-nested", LD,
  "    process_tree = calculate_process_tree_from_event_sets(event_sets)\n    logic_gate_tree = reduce_process_tree_to_preferred_logic_gates(\n        event_sets, process_tree\n    )\n    logic_gate_tree_with_repeats = calculate_repeats_in_tree(\n        event_sets, logic_gate_tree\n    )\n\n    return logic_gate_tree_with_repeats\n",
  "    return calculate_repeats_in_tree(\n        event_sets,\n        reduce_process_tree_to_preferred_logic_gates(\n            event_sets, calculate_process_tree_from_event_sets(event_sets)\n        ),\n    )\n",
  "the three stages written as one nested expression")
T("C01", "twin-gate-empty-test-truthiness", LD,
  "    if len(event_sets) == 0:\n        return None\n    process_tree",
  "    if not event_sets:\n        return None\n    process_tree",
  "emptiness of the observation tested by truthiness")

# ---- root classification on the three-point domain (seeds C10-y, C12-y) -----
for _P, _R in (("C10", "R10.7"), ("C11", "R11.9"), ("C12", "R12.9")):
    M(_P, "empty-parent-stored-as-is", SQL,
      "            parent_event_id=otel_event.parent_event_id or None,",
      "            parent_event_id=otel_event.parent_event_id,",
      _R, "a root exported with parent '' is stored as '' - no reader takes it for a root (seed C12-y)")
    M(_P, "link-guard-is-not-none", SQL,
      "        if otel_event.parent_event_id:\n",
      "        if otel_event.parent_event_id is not None:\n",
      _R, "a root exported with parent '' gets a link row to '' (seed C10-y)")
    M(_P, "rebuild-guard-truthiness-after-unnormalised-store", SQL,
      "            parent_event_id=otel_event.parent_event_id or None,",
      "            parent_event_id=otel_event.parent_event_id if otel_event.parent_event_id is not None else None,",
      _R, "the conditional expression keeps '' although it looks like a normalisation")
    T(_P, "twin-parent-normalised-by-conditional", SQL,
      "            parent_event_id=otel_event.parent_event_id or None,",
      "            parent_event_id=(\n                otel_event.parent_event_id\n                if otel_event.parent_event_id\n                else None\n            ),",
      "`x if x else None` is `x or None`")
    T(_P, "twin-link-guard-explicit", SQL,
      "        if otel_event.parent_event_id:\n",
      "        if otel_event.parent_event_id is not None and otel_event.parent_event_id != \"\":\n",
      "explicit spelling of the truthiness test")

# ---- R13.10 the record reaches the span model untouched (seed C13-y) --------
M("C13", "empty-parent-nulled-before-validation", JDS,
  "                    try:\n                        yield OTelEvent(**record)",
  "                    if not record.get(\"parent_event_id\"):\n                        record[\"parent_event_id\"] = None\n                    try:\n                        yield OTelEvent(**record)",
  "R13.10", "a present empty-string value is turned into null (seed C13-y)")
M("C13", "record-filtered-before-validation", JDS,
  "                        yield OTelEvent(**record)",
  "                        yield OTelEvent(**{k: v for k, v in record.items() if v != \"\"})",
  "R13.10", "empty strings are dropped from the record before the span is built")
M("C13", "null-fields-popped", JDS,
  "                    try:\n                        yield OTelEvent(**record)",
  "                    if record.get(\"child_event_ids\") is None:\n                        record.pop(\"child_event_ids\", None)\n                    try:\n                        yield OTelEvent(**record)",
  "R13.10", "the record is modified in place before validation")
M("C13", "generator-stops-at-first-list", JQC,
  "            if isinstance(record, list):\n                yield from record\n            else:\n                yield record",
  "            if isinstance(record, list):\n                yield from record\n                break\n            else:\n                yield record",
  "R13.10", "outputs after the first list output are lost")
T("C13", "twin-record-renamed", JDS,
  "                for record in generate_records_from_compiled_jq(\n                    data, self.compiled_jq\n                ):\n                    try:\n                        yield OTelEvent(**record)",
  "                for record in generate_records_from_compiled_jq(\n                    data, self.compiled_jq\n                ):\n                    fields = record\n                    try:\n                        yield OTelEvent(**fields)",
  "an alias of the record")

# ---- shared obligations (seeds C11-y, C15-y): every mutant of the lending
# rule is a mutant of the borrowing rule, every twin of the lender a twin
from .selftest import VARIANTS as _V, Variant as _Var
for _lp, _lr, _bp, _br in (("C10", "R10.5", "C11", "R11.10"),
                           ("C10", "R10.5", "C12", "R12.10"),
                           ("C04", "R4.1", "C05", "R5.26"),
                           ("C04", "R4.4", "C05", "R5.27"),
                           ("C07", "R7.18", "C05", "R5.28"),
                           ("C11", "R11.8", "C09", "R9.10"),
                           ("C11", "R11.4", "C15", "R15.10"),
                           ("C11", "R11.1", "C15", "R15.9")):
    _have = {v.vid for v in _V if v.prop == _bp}
    for _v in list(_V):
        if _v.prop != _lp or _v.vid in _have:
            continue
        if _v.kind == "mutant" and _lr in _v.expect:
            _V.append(_Var(_bp, _v.vid, "mutant", _v.desc, list(_v.edits),
                           frozenset({_br})))
        elif _v.kind == "twin" and _v.transform is None:
            _V.append(_Var(_bp, _v.vid, "twin", _v.desc, list(_v.edits)))
M("C11", "link-queued-after-the-flush", SQL,
  "        self.add_node_relations(otel_event)\n\n        if len(self.node_models_to_save) >= self.batch_size:\n            self.commit_batched_unique_data_to_database()",
  "        if len(self.node_models_to_save) >= self.batch_size:\n            self.commit_batched_unique_data_to_database()\n        self.add_node_relations(otel_event)",
  "R11.10", "the link of the span that fills a batch travels with the next batch and is dropped by the duplicate filter (seed C11-y)")
M("C15", "no-rename-on-the-no-ingest-arm", "otel_to_pv/otel_to_pv.py",
  "    data_holder.update_job_names_by_root_span()\n",
  "    if ingest_data:\n        data_holder.update_job_names_by_root_span()\n",
  "R15.9", "a store left half-processed by an aborted run is never renamed by later --no-ingest runs (seed C15-y)")

# ---- wave z -------------------------------------------------------------------
M("C04", "model-save-failure-logged", EV,
  "    with open(file_path, \"w\") as file:\n        json.dump(events_input_file_model.model_dump(), file, indent=4)\n",
  "    try:\n        with open(file_path, \"w\") as file:\n            json.dump(events_input_file_model.model_dump(), file, indent=4)\n    except OSError as e:\n        print(f\"Error saving model file.{e}\")\n",
  "R4.10", "a model that cannot be written is logged and the run goes on: the stale file is what the next run loads (seed C04-z)")
T("C04", "twin-model-save-failure-rewrapped", EV,
  "    with open(file_path, \"w\") as file:\n        json.dump(events_input_file_model.model_dump(), file, indent=4)\n",
  "    try:\n        with open(file_path, \"w\") as file:\n            json.dump(events_input_file_model.model_dump(), file, indent=4)\n    except OSError as e:\n        raise RuntimeError(f\"could not save {file_path}\") from e\n",
  "the failure is re-raised with context")
M("C09", "known-hashes-not-inserted-again", SQL,
  "    insert_job_hashes(job_ids_hashes, sql_data_holder)\n",
  "    seen = set()\n    job_ids_hashes = [\n        h for h in job_ids_hashes\n        if not (h.job_hash in seen or seen.add(h.job_hash))\n    ]\n    insert_job_hashes(job_ids_hashes, sql_data_holder)\n",
  "R9.8", "rows are filtered by hash alone before the insert: another workflow's representative is lost (seed C09-z)")
M("C09", "hash-insert-conditional", SQL,
  "    insert_job_hashes(job_ids_hashes, sql_data_holder)\n",
  "    if len(job_ids_hashes) > 1:\n        insert_job_hashes(job_ids_hashes, sql_data_holder)\n",
  "R9.8", "a page with a single root is not inserted")
M("C10", "insert-committed-in-chunks", SQL,
  "                session.add_all(objects)\n                session.commit()\n",
  "                for start in range(0, len(objects), 1000):\n                    session.add_all(objects[start:start + 1000])\n                    session.commit()\n",
  "R10.3", "a batch is committed in chunks: a duplicate in a later chunk leaves earlier chunks stored, the filter drops them with their links (seed C10-z)")
M("C13", "bare-string-zipped", JCFG,
  "        if isinstance(optional_list, str):\n            optional_list = [optional_list]\n        updated_optional_list",
  "        updated_optional_list",
  "R13.11", "a bare-string key_value / value_paths is zipped character by character (seed C13-z)")
M("C13", "bare-string-key-paths-iterated", JCFG,
  "        if isinstance(key_paths, str):\n            key_paths = [key_paths]\n",
  "",
  "R13.11", "a bare-string key_paths becomes one alternative per character")
T("C13", "twin-string-case-as-else", JCFG,
  "        if isinstance(key_paths, str):\n            key_paths = [key_paths]\n        updated_key_paths: list[tuple[str, ...]] = []\n        for key_path in key_paths:\n            updated_key_paths.append(\n                JQFieldSpec.field_spec_key_path_to_jq_key_path(key_path)\n            )\n        return updated_key_paths\n",
  "        if isinstance(key_paths, str):\n            return [JQFieldSpec.field_spec_key_path_to_jq_key_path(key_paths)]\n        updated_key_paths: list[tuple[str, ...]] = []\n        for key_path in key_paths:\n            updated_key_paths.append(\n                JQFieldSpec.field_spec_key_path_to_jq_key_path(key_path)\n            )\n        return updated_key_paths\n",
  "guard clause that leaves for a bare string instead of the wrap")
for _P, _R in (("C16", "R16.4"), ("C08", "R8.9")):
    M(_P, "one-entry-memo-updated-in-two-steps", P2T,
      "    dt = datetime.fromisoformat(iso_timestamp.rstrip(\"Z\")).replace(\n        tzinfo=timezone.utc\n    )\n    # Convert the whole seconds of the datetime object to a Unix timestamp\n    unix_timestamp = int(dt.replace(microsecond=0).timestamp())\n",
      "    global _LAST_TEXT, _LAST_SECONDS\n    second_text = iso_timestamp.partition(\".\")[0]\n    changed = second_text != _LAST_TEXT\n    _LAST_TEXT = second_text\n    dt = datetime.fromisoformat(iso_timestamp.rstrip(\"Z\")).replace(\n        tzinfo=timezone.utc\n    )\n    if changed:\n        _LAST_SECONDS = int(dt.replace(microsecond=0).timestamp())\n    unix_timestamp = _LAST_SECONDS\n",
      _R, "the remembered key is stored before the parse that can raise, the remembered seconds after it (seed C16-z)")

# ---- D11: the break filter resized the set it iterated ------------------------
for _P, _R in (("C07", "R7.16"), ("C05", "R5.20")):
    M(_P, "d11-revert-iterate-live-set", CUG,
      "    for break_event in list(loop.break_events):\n",
      "    for break_event in loop.break_events:\n",
      _R, "the set of break events is iterated while it is resized (D11 shape)")
    M(_P, "d11-revert-drop-without-replacement", CUG,
      "            if dummy_break_event in loop.break_events:\n                loop.break_events.remove(break_event)\n",
      "            loop.break_events.remove(break_event)\n",
      _R, "a break event that got no dummy break is dropped (D11 shape)")
    T(_P, "twin-break-snapshot-tuple", CUG,
      "    for break_event in list(loop.break_events):\n",
      "    for break_event in tuple(loop.break_events):\n",
      "another spelling of the snapshot")
T("C13", "twin-string-case-negated", JCFG,
  '        if optional_list_value is None:\n            return tuple([None] * len(jq_key_path))\n        elif isinstance(optional_list_value, str):\n            return (optional_list_value,)\n        else:\n            try:\n                priority_optional_list = tuple(iter(optional_list_value))\n                for key in priority_optional_list:\n                    if not isinstance(key, str) and key is not None:\n                        raise TypeError(\n                            "Priority key value, within an iterable, must be "\n                            "a string or None"\n                        )\n                return tuple(priority_optional_list)\n            except TypeError:\n                raise TypeError("Key value must be iterable or a string")\n\n',
  '        if optional_list_value is None:\n            return tuple([None] * len(jq_key_path))\n        elif not isinstance(optional_list_value, str):\n            try:\n                priority_optional_list = tuple(iter(optional_list_value))\n                for key in priority_optional_list:\n                    if not isinstance(key, str) and key is not None:\n                        raise TypeError(\n                            "Priority key value, within an iterable, must be "\n                            "a string or None"\n                        )\n                return tuple(priority_optional_list)\n            except TypeError:\n                raise TypeError("Key value must be iterable or a string")\n        else:\n            return (optional_list_value,)\n\n',
  "the string case as the else-arm of a negated isinstance test (autotwin flip-if; R13.11 alarmed on it until the guard was read through `not`)")
