"""E8 placeholder (filled in later)."""
def run(prop, root, jobs=16):
    return {"mutants": 0, "mutants_detected": 0, "twins": 0, "twins_silent": 0,
            "positive_examples": 0, "positive_examples_ok": 0, "failures": [], "details": []}
