#!/usr/bin/env bash
# Runs the repository's pinned suite (guard off; there are no hooks) and
# compares with /root/.vp/BASELINE.json's stable_pass list.
out=$(mktemp -d)
(cd /repo && /venv/bin/python -m pytest -ra -q -p no:cacheprovider --timeout=900 \
   --continue-on-collection-errors --junitxml=$out/j.xml > $out/log 2>&1)
/venv/bin/python - "$out/j.xml" <<'PY'
import json, sys, xml.etree.ElementTree as ET
b = json.load(open('/root/.vp/BASELINE.json'))
res = {}
for tc in ET.parse(sys.argv[1]).iter('testcase'):
    res[f"{tc.get('classname')}::{tc.get('name')}"] = not any(
        c.tag in ('failure', 'error', 'skipped') for c in tc)
missing = [n for n in b['stable_pass'] if not res.get(n)]
print(f"baseline stable_pass={len(b['stable_pass'])} passing_now="
      f"{len(b['stable_pass'])-len(missing)} missing={missing}")
sys.exit(1 if missing else 0)
PY
rc=$?; rm -rf "$out"; exit $rc
