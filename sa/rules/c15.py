"""C15 -- re-running against a persisted store is repeatable."""
from __future__ import annotations

import ast

from .. import sqlabs as S
from ..core import AnalysisError, Report, call_name, dotted, unparse
from ..ctx import Ctx
from ..dataflow import find_calls
from .sqlutil import (exec_dominates, link_rows_follow_node_deletes, sql_of,
                      stmt_kind, table_of)
from .util import enclosing

EXPLANATION = (
    "The persistent write set of a run is enumerated by abstractly "
    "interpreting the SQLAlchemy construction code reachable from "
    "otel_to_pv (every session.execute / add_all with the statement it "
    "runs and the interprocedural call chain), plus the file writers. Each "
    "write gets a re-run-safety obligation: R15.1 inserts into a table with "
    "a unique key that survives the process (job_hashes) are dominated by a "
    "delete of the rows they would collide with (or are upserts); R15.2 "
    "every DELETE on nodes is accompanied in the same transaction by a "
    "DELETE of the NODE_ASSOCIATION rows whose child no longer exists; "
    "R15.3 tables created at run time are TEMPORARY or dropped in a "
    "finally; R15.4 inserts into nodes / NODE_ASSOCIATION are reachable "
    "only through the duplicate-recovering wrapper; R15.5 opening the store "
    "never resets it; R15.6 output files are opened for overwrite with "
    "names that are a function of workflow name and ordinal only. "
    "Necessary conditions of repeatability; the database is never run."
    " Added: R15.7 the duplicate recovery that makes re-ingestion a no-op is complete; R15.8 the time window derives from this run's ingestion only.")
TRUSTED = ["builder-method semantics table of sa/sqlabs.py",
           "`with <data holder>:` runs the most derived __exit__ of the only "
           "class family that defines one"]
NOT_DECIDED = ["that two runs pick the same representative per shape "
               "(SQLite's choice of the bare job_id column)"]
ASSUMPTIONS = ["SQLite does not enforce foreign keys unless PRAGMA "
               "foreign_keys is issued (it is not)"]


def check(rep: Report, ctx: Ctx) -> None:
    sql = sql_of(ctx)
    sch = sql.schema
    entry = ctx.func("otel_to_pv")
    it = sql.run(entry)
    writes = [x for x in it.execs if x.kind in ("execute", "add_all")
              and not isinstance(x.stmt, S.Select)]
    rep.analysed["write_set"] = [
        {"kind": stmt_kind(x), "table": table_of(x.stmt),
         "chain": x.where(), "statement": x.stmt.nf()[:300] if x.stmt else ""}
        for x in writes]
    rep.rule("R15.0", "the write set of a run is enumerated (vacuity guard: "
             "nodes, NODE_ASSOCIATION, job_hashes, temp_root_nodes)", 4)
    persistent_tables = {t.name for t in sch.models.values()} | {
        t.name for t in sch.tables.values() if not t.temporary}
    seen_tables = set()
    for x in writes:
        t = table_of(x.stmt)
        if t is None:
            raise AnalysisError(
                f"write at {x.func.file}:{x.node.lineno} ({x.where()}) runs "
                f"a statement outside the vocabulary: "
                f"{x.stmt.nf()[:80] if x.stmt else '?'}")
        if t not in seen_tables:
            seen_tables.add(t)
    for t in sorted(seen_tables):
        rep.ob("R15.0", f"table {t} is written by a run", True, fi=entry,
               node=entry.node,
               detail=f"{sum(1 for x in writes if table_of(x.stmt) == t)} "
                      "write site(s) reachable from otel_to_pv")

    # ---- R15.1 ---------------------------------------------------------------
    rep.rule("R15.1", "inserts into a persistent table with a unique key, "
             "outside the duplicate-recovering ingestion wrapper, are "
             "dominated by a delete of the colliding rows (or are upserts)",
             1)
    wrapper = ctx.func("SQLDataHolder.commit_batched_unique_data_to_database")
    for x in writes:
        t = table_of(x.stmt)
        if stmt_kind(x) != "INSERT" or t not in persistent_tables:
            continue
        if not (sch.unique.get(t) or sch.pk.get(t)):
            continue
        if wrapper.short in x.chain:
            continue  # R15.4 / C10 cover it
        if isinstance(x.stmt, S.Insert) and "ON CONFLICT" in x.stmt.prefixes:
            rep.ob("R15.1", f"insert into {t} is an upsert", True, fi=x.func,
                   node=x.node, detail=x.where())
            continue
        dels = [d for d in writes if isinstance(d.stmt, S.Delete)
                and table_of(d.stmt) == t]
        ok, why = False, f"no DELETE FROM {t} anywhere in the run"
        for d in dels:
            whole = not d.stmt.where  # type: ignore[union-attr]
            dom, how = exec_dominates(ctx, d, x)
            if dom and whole:
                ok, why = True, (f"DELETE FROM {t} (all rows) at "
                                 f"{d.func.short} {how}")
                break
            why = (f"DELETE FROM {t} at {d.func.short}: "
                   + ("conditional delete " if not whole else "") + how)
        rep.ob("R15.1", f"insert into {t} ({x.func.short})", ok, fi=x.func,
               node=x.node, path=x.chain,
               detail=why + ("" if ok else
                             f" -- rows of an earlier run on the same file "
                             f"collide on the unique key "
                             f"{sorted(sch.unique.get(t) or sch.pk.get(t))}"))

    # ---- R15.2 ---------------------------------------------------------------
    rep.rule("R15.2", "every DELETE on nodes is followed, before the commit, "
             "by a DELETE of the link rows whose child no longer exists", 2)
    link_rows_follow_node_deletes(rep, ctx, "R15.2", it)

    # ---- R15.3 ---------------------------------------------------------------
    rep.rule("R15.3", "tables created at run time are TEMPORARY or dropped "
             "in a finally", 1)
    for x in writes:
        if isinstance(x.stmt, S.DDL) and x.stmt.kind == "create":
            t = x.stmt.table
            temp = isinstance(t, S.TableRef) and t.temporary
            dropped = any(isinstance(y.stmt, S.DDL) and y.stmt.kind == "drop"
                          and table_of(y.stmt) == table_of(x.stmt)
                          and y.in_finally for y in writes)
            rep.ob("R15.3", f"CREATE TABLE {table_of(x.stmt)}",
                   temp or dropped, fi=x.func, node=x.node, path=x.chain,
                   detail=("TEMPORARY prefix" if temp else
                           "dropped in finally" if dropped else
                           "a persistent table created per run: the next run "
                           "on the same file fails with 'table already "
                           "exists' whenever this run ends before the drop"))

    # ---- R15.4 ---------------------------------------------------------------
    rep.rule("R15.4", "inserts into nodes / NODE_ASSOCIATION go through the "
             "duplicate-recovering wrapper (re-ingest is a no-op)", 2)
    for x in writes:
        t = table_of(x.stmt)
        if stmt_kind(x) == "INSERT" and t in ("nodes", "NODE_ASSOCIATION"):
            rep.ob("R15.4", f"insert into {t} via "
                   f"{x.chain[-2] if len(x.chain) > 1 else x.chain[-1]}"
                   f"@{'exit' if 'SQLDataHolder.__exit__' in x.chain else 'save'}"
                   f"{'/retry' if any('check_and_filter' in c for c in x.chain) else ''}",
                   wrapper.short in x.chain, fi=x.func, node=x.node,
                   path=x.chain, detail="call chain " + x.where())

    # ---- R15.7 ---------------------------------------------------------------
    # re-ingesting the same files is a no-op only if the recovery path removes
    # *every* span that is already stored, whatever else the batch contains:
    # the filter-skeleton obligations of C10 (R10.6) are premises of C15 too.
    rep.rule("R15.7", "the duplicate recovery that makes re-ingestion a "
             "no-op is complete (first occurrence kept, stored ids looked up "
             "on every path and removed, links rebuilt from the survivors)",
             8)
    from . import c10 as _c10
    sub = Report("C10", ctx.index)
    sub.rule("R10.6", "filter skeleton", 1)
    _c10._filter(sub, ctx, ctx.func(
        "SQLDataHolder.check_and_filter_non_unique_nodes_and_associations"),
        ctx.func("SQLDataHolder.commit_batched_data_to_database"))
    for o in sub.obligations:
        o.rule = "R15.7"
        rep.obligations.append(o)
    rep.funcs_seen |= sub.funcs_seen

    # ---- R15.8 ---------------------------------------------------------------
    rep.rule("R15.8", "a re-run derives its time window from this run's "
             "ingestion only (no state of the store feeds the bounds the "
             "destructive trim works from)", 1)
    from .c11 import bounds_writers
    bounds_writers(rep, ctx, "R15.8")

    # ---- R15.9 ---------------------------------------------------------------
    # a run that opens an existing store (--no-ingest, or after a run that
    # stopped half way) must bring it to the same cleaned, renamed state as
    # the run that filled it: the cleaning steps run on both arms (seed C15-y)
    rep.rule("R15.9", "a run on an existing store applies the same cleaning "
             "and renaming steps before it reads (= C11 R11.1)", 6)
    from . import c11 as _c11
    from .util import borrow
    borrow(rep, ctx, _c11, "C11", "R11.1", "R15.9")

    # ---- R15.10 --------------------------------------------------------------
    # the trim of one run and the candidate window of the next (--no-ingest,
    # -ug) must mean the same by "inside the window" (seed C15-d)
    rep.rule("R15.10", "the destructive trim and the candidate window use "
             "one predicate (= C11 R11.4 / R11.6)", 2)
    n = borrow(rep, ctx, _c11, "C11", "R11.4", "R15.10")
    n += borrow(rep, ctx, _c11, "C11", "R11.6", "R15.10")

    # ---- R15.5 ---------------------------------------------------------------
    rep.rule("R15.5", "opening the store never resets it", 2)
    fetch = ctx.func("fetch_data_holder")
    reach = ctx.cg.closure([fetch])
    init = ctx.func("SQLDataHolder.__init__")
    rep.ob("R15.5", "fetch_data_holder reaches the holder constructor via "
           "the registry", True, fi=fetch, node=fetch.node,
           detail="DATAHOLDERS[...] (...) instantiates SQLDataHolder")
    reach |= ctx.cg.closure([init])
    bad = []
    for q in sorted(reach):
        f = ctx.index.functions[q]
        for c in ast.walk(f.node):
            if isinstance(c, ast.Call) and call_name(c) in (
                    "drop_all", "DropTable", "drop", "unlink", "remove"):
                if call_name(c) in ("remove",) and not (
                        dotted(c.func) or "").startswith("os."):
                    continue
                bad.append((f, c))
    rep.ob("R15.5", "no drop/reset reachable from opening the store",
           not bad, fi=bad[0][0] if bad else init,
           node=bad[0][1] if bad else init.node,
           detail=(f"'{unparse(bad[0][1])}' is reachable from "
                   "fetch_data_holder" if bad else
                   f"{len(reach)} functions reachable; none drops a table"))
    creates = [c for q in reach for c in ast.walk(ctx.index.functions[q].node)
               if isinstance(c, ast.Call) and call_name(c) == "create_all"]
    rep.ob("R15.5", "tables are created idempotently (create_all)",
           bool(creates), fi=init, node=creates[0] if creates else init.node,
           detail="metadata.create_all(engine) skips existing tables")

    # ---- R15.6 ---------------------------------------------------------------
    rep.rule("R15.6", "output files are opened for overwrite", 3)
    for spec in ("save_pv_event_stream_to_file", "pv_to_puml_file",
                 "save_events_to_file"):
        f = ctx.func(spec)
        opens = [c for c in find_calls(f.node, "open")
                 if isinstance(c.func, ast.Name)]
        if not opens:
            raise AnalysisError(f"{f.qualname}: no open() call")
        for c in opens:
            mode = c.args[1] if len(c.args) > 1 else None
            for k in c.keywords:
                if k.arg == "mode":
                    mode = k.value
            m = mode.value if isinstance(mode, ast.Constant) else None
            rep.ob("R15.6", f"{f.short}: open mode", m in ("w", "wt", "wb"),
                   fi=f, node=c,
                   detail=f"mode {m!r} (append or exclusive modes make a "
                          "second run differ or fail)")
