"""Helpers shared by the rule modules."""
from __future__ import annotations

import ast
from typing import Callable, Iterable, Iterator, Optional

from ..core import AnalysisError, FuncInfo, Report, dotted, unparse
from ..ctx import Ctx
from ..dataflow import Defs, bound_arg, default_of


def calls_in(ctx: Ctx, caller: FuncInfo, callee: FuncInfo) -> list[ast.Call]:
    return [s.node for s in ctx.cg.calls_to(caller, callee)
            if isinstance(s.node, ast.Call)]


def one_call(ctx: Ctx, caller: FuncInfo, callee: FuncInfo) -> ast.Call:
    cs = calls_in(ctx, caller, callee)
    if len(cs) != 1:
        raise AnalysisError(
            f"expected exactly one call of {callee.short} in {caller.short}, "
            f"found {len(cs)}")
    return cs[0]


def actual(call: ast.Call, callee: FuncInfo, param: str) -> Optional[ast.AST]:
    return bound_arg(call, callee.node, param,
                     method=callee.cls is not None and not callee.is_static)


def forwards(rep: Report, ctx: Ctx, rule: str, caller: FuncInfo,
             callee: FuncInfo, mapping: dict[str, str | Callable[[ast.AST], bool]],
             *, what: str = "") -> None:
    """Obligation: at every call of ``callee`` in ``caller`` the parameter
    ``p`` of the callee is bound to the caller's own name ``mapping[p]``
    (copy-propagated), or to an expression accepted by the predicate."""
    sites = calls_in(ctx, caller, callee)
    if not sites:
        rep.ob(rule, f"{caller.short} calls {callee.short}", False, fi=caller,
               node=caller.node,
               detail=f"no resolved call of {callee.short} in {caller.short}")
        return
    defs = ctx.defs(caller)
    for call in sites:
        for p, want in mapping.items():
            a = actual(call, callee, p)
            if a is None:
                ok, got = False, "<default>"
            else:
                r = defs.resolve(a)
                got = unparse(r)
                if callable(want):
                    ok = want(r)
                else:
                    ok = isinstance(r, ast.Name) and r.id == want
            rep.ob(rule, f"{caller.short}->{callee.short}({p})", ok,
                   fi=caller, node=call,
                   detail=f"parameter {p} is bound to '{got}'"
                          + ("" if ok else
                             f" (expected {want if isinstance(want, str) else 'the documented source'})")
                          + (f" -- {what}" if what else ""))


def is_attr_of(e: ast.AST, base: str, attr: str) -> bool:
    return isinstance(e, ast.Attribute) and e.attr == attr \
        and isinstance(e.value, ast.Name) and e.value.id == base


def enclosing_loops(fi_node: ast.AST, target: ast.AST) -> list[ast.AST]:
    """For/While/comprehension statements enclosing ``target`` (outermost
    first)."""
    out: list[ast.AST] = []

    def rec(n: ast.AST, stack: list[ast.AST]) -> bool:
        if n is target:
            out.extend(stack)
            return True
        for c in ast.iter_child_nodes(n):
            ns = stack + [n] if isinstance(
                n, (ast.For, ast.While, ast.AsyncFor)) else stack
            if rec(c, ns):
                return True
        return False

    rec(fi_node, [])
    return out


def enclosing(fi_node: ast.AST, target: ast.AST,
              kinds: tuple[type, ...]) -> list[ast.AST]:
    out: list[ast.AST] = []

    def rec(n: ast.AST, stack: list[ast.AST]) -> bool:
        if n is target:
            out.extend(stack)
            return True
        for c in ast.iter_child_nodes(n):
            ns = stack + [n] if isinstance(n, kinds) else stack
            if rec(c, ns):
                return True
        return False

    rec(fi_node, [])
    return out


def in_body(container: ast.AST, field: str, target: ast.AST) -> bool:
    for st in getattr(container, field, []):
        if st is target or any(x is target for x in ast.walk(st)):
            return True
    return False


def stmts_after(block: list[ast.stmt], st: ast.stmt) -> list[ast.stmt]:
    for i, s in enumerate(block):
        if s is st:
            return block[i + 1:]
    return []


def kw(call: ast.Call, name: str) -> Optional[ast.AST]:
    for k in call.keywords:
        if k.arg == name:
            return k.value
    return None


def truthiness_of(test: ast.AST, name: str) -> bool:
    """Does ``test`` hold only if the value named ``name`` is non-empty?
    Accepted idioms: ``name``, ``len(name)``, ``len(name) > 0``,
    ``len(name) >= 1``, ``len(name) != 0``, ``name != []``, and conjunctions
    containing one of them."""
    if isinstance(test, ast.Name):
        return test.id == name
    if isinstance(test, ast.BoolOp) and isinstance(test.op, ast.And):
        return any(truthiness_of(v, name) for v in test.values)
    if isinstance(test, ast.Call) and dotted(test.func) == "len" \
            and test.args and isinstance(test.args[0], ast.Name):
        return test.args[0].id == name
    if isinstance(test, ast.Compare) and len(test.ops) == 1:
        l, r, op = test.left, test.comparators[0], test.ops[0]
        if isinstance(l, ast.Call) and dotted(l.func) == "len" and l.args \
                and isinstance(l.args[0], ast.Name) and l.args[0].id == name \
                and isinstance(r, ast.Constant):
            return (isinstance(op, ast.Gt) and r.value == 0) or \
                   (isinstance(op, ast.GtE) and r.value == 1) or \
                   (isinstance(op, ast.NotEq) and r.value == 0)
        if isinstance(l, ast.Name) and l.id == name and isinstance(
                op, ast.NotEq) and isinstance(r, ast.List) and not r.elts:
            return True
    return False
