"""Development aid (NOT part of any check): run the random job families of
gen.py through pv_to_puml_string of the tel2puml package found on PYTHONPATH
and print one JSON line per case: seed, status, normalised output.
usage: PYTHONHASHSEED=0 GEN_MODE=1|2 PYTHONPATH=<tree>:<janus stub> python run_tree.py A B"""
import sys, os, json, hashlib
sys.path.insert(0, os.path.dirname(os.path.abspath(__file__)))
import gen  # noqa: E402
a, b = int(sys.argv[1]), int(sys.argv[2])
for seed in range(a, b):
    proc, jobs, types = gen.make_case(seed)
    st, out, _ = gen.run_stream(jobs, False, timeout=int(os.environ.get('CASE_TIMEOUT', '6')))
    txt = gen.norm(out)
    print(json.dumps(dict(seed=seed, st=st,
                          h=hashlib.sha1(txt.encode()).hexdigest()[:12],
                          err=txt[:120] if st != "ok" else "")), flush=True)
