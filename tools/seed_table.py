#!/usr/bin/env python3
"""Regenerates the table of DESIGN.md section 13 from seeded/*/meta.json
(between the markers <!-- seeds:begin --> and <!-- seeds:end -->)."""
import json
import re
from pathlib import Path

V = Path(__file__).resolve().parent.parent


def short(s, n):
    s = " ".join(str(s).split())
    return s if len(s) <= n else s[: n - 1].rsplit(" ", 1)[0] + " ..."


rows = ["| seed | change (independent sub-agent) | needs, to manifest | "
        "caught by | first run / what was strengthened |",
        "|---|---|---|---|---|"]
for d in sorted((V / "seeded").iterdir()):
    m = json.loads((d / "meta.json").read_text())
    rows.append("| {} | {} | {} | {} | {} |".format(
        d.name, short(m.get("summary", ""), 260).replace("|", "/"),
        short(m.get("needs_to_manifest", ""), 200).replace("|", "/"),
        short(m.get("detected_by", "?"), 160).replace("|", "/"),
        short(m.get("history", ""), 260).replace("|", "/")))
p = V / "DESIGN.md"
s = p.read_text()
s = re.sub(r"<!-- seeds:begin -->.*<!-- seeds:end -->",
           lambda _m: "<!-- seeds:begin -->\n" + "\n".join(rows)
           + "\n<!-- seeds:end -->",
           s, flags=re.S)
p.write_text(s)
print(len(rows) - 2, "seeds")
