"""Development aid (NOT part of any check): where are the rules blind?
First-order mutants (sa.automut operators) of EVERY function reachable from
pv_to_puml_string / pv_to_puml_file in the pv2puml half (the half the pinned
suite cannot run), classified by
  * detected by some rule of C01 / C04 / C05 / C07, or not, and
  * changes the emitted PlantUML on random job families, or not.
"undetected + changes output" is a coverage gap of the rules; it is printed
per function so that the next table is written where it pays most.
usage: python gapfinder.py [N_SEEDS] [--skip-heuristics]
env:   FUNC=a,b  restrict to these functions;  MODS=substr,substr restrict modules"""
import sys, os, json, shutil, subprocess, tempfile, ast, copy
from pathlib import Path
from collections import defaultdict
from concurrent.futures import ProcessPoolExecutor, ThreadPoolExecutor, as_completed
HERE = os.path.dirname(os.path.abspath(__file__))
sys.path.insert(0, "/verif")
from sa import automut  # noqa: E402
from sa.core import DEFAULT_ROOT  # noqa: E402
N = int(sys.argv[1]) if len(sys.argv) > 1 and sys.argv[1].isdigit() else 40
STUB = "/verif/tools/janus_stub"
PROPS = ("C01", "C04", "C05", "C07")


def run(tree, mode):
    env = dict(os.environ, PYTHONHASHSEED="0", GEN_MODE=str(mode),
               PYTHONPATH=f"{tree}:{STUB}", CASE_TIMEOUT="5")
    p = subprocess.run(["/venv/bin/python", f"{HERE}/run_tree.py", "0", str(N)],
                       env=env, capture_output=True, text=True, timeout=3600)
    out = {}
    for line in p.stdout.splitlines():
        if line.startswith("{"):
            d = json.loads(line)
            out[d["seed"]] = (d["st"], d["h"])
    return out


def generate_all():
    from sa.main import run_rules
    rep, ctx = run_rules("C01", DEFAULT_ROOT)
    entries = [ctx.func("pv_to_puml_string")]
    clo = ctx.cg.closure(entries)
    skip_h = "--skip-heuristics" in sys.argv
    only = os.environ.get("FUNC")
    mods = os.environ.get("MODS")
    jobs = []
    for q in sorted(clo):
        fi = ctx.index.functions.get(q)
        if fi is None or "otel_to_pv" in fi.module.relpath:
            continue
        if skip_h and "logic_detection" in fi.module.relpath:
            continue
        if only and fi.node.name not in only.split(","):
            continue
        if mods and not any(m in fi.module.relpath for m in mods.split(",")):
            continue
        tree = ast.parse(fi.module.src)
        target = None
        for n in ast.walk(tree):
            if isinstance(n, ast.FunctionDef) and n.name == fi.node.name \
                    and n.lineno == fi.node.lineno:
                target = n
        if target is None:
            continue
        for desc, f2 in automut.mutants_of(target):
            t2 = copy.deepcopy(tree)
            for n in ast.walk(t2):
                blk = getattr(n, "body", None)
                if isinstance(blk, list):
                    for k, st in enumerate(blk):
                        if isinstance(st, ast.FunctionDef) and st.name == \
                                target.name and st.lineno == target.lineno:
                            blk[k] = f2
            try:
                src = ast.unparse(ast.fix_missing_locations(t2)) + "\n"
                ast.parse(src)
            except Exception:
                continue
            jobs.append(("ALLP", str(DEFAULT_ROOT), fi.module.relpath,
                         q.split(":")[-1], desc, src))
    return jobs


def _det(j):
    fired, errs = set(), []
    for prop in PROPS:
        r = automut._run((prop,) + tuple(j[1:]))
        if r["status"] == "detected":
            fired |= set(r["fired"])
        elif r["status"] == "analysis-error":
            errs.append(prop)
    return j, sorted(fired), errs


def main():
    jobs = generate_all()
    print("mutants", len(jobs), "functions", len({j[3] for j in jobs}), flush=True)
    with ProcessPoolExecutor(max_workers=11) as ex:
        dets = list(ex.map(_det, jobs, chunksize=4))
    base = {m: run("/repo", m) for m in (1, 2)}

    def job(x):
        j, fired, errs = x
        d = tempfile.mkdtemp(prefix="gapf_")
        try:
            shutil.copytree("/repo/tel2puml", d + "/tel2puml",
                            ignore=shutil.ignore_patterns("__pycache__"))
            Path(d, j[2]).write_text(j[5])
            diff = tot = 0
            for m in (1, 2):
                r = run(d, m)
                for s in base[m]:
                    tot += 1
                    diff += base[m].get(s) != r.get(s)
            return j, fired, errs, diff, tot
        finally:
            shutil.rmtree(d, ignore_errors=True)
    per = defaultdict(lambda: dict(n=0, det=0, det_eq=0, gap=0, eq=0, err=0))
    gaps = []
    with ThreadPoolExecutor(max_workers=11) as ex:
        for f in as_completed([ex.submit(job, x) for x in dets]):
            j, fired, errs, diff, tot = f.result()
            p = per[(j[2], j[3])]
            p["n"] += 1
            if fired:
                p["det"] += 1
                p["det_eq"] += diff == 0
            elif errs:
                p["err"] += 1
            elif diff:
                p["gap"] += 1
                gaps.append((j[2], j[3], j[4], diff, tot))
            else:
                p["eq"] += 1
            tag = "DET" if fired else ("ERR" if errs else ("GAP" if diff else "EQV"))
            print(f"{tag} {diff:3d}/{tot} {j[3]}: {j[4][:90]} :: {' '.join(fired) or ' '.join(errs)}", flush=True)
    print("\n== per function: mutants / detected (of which no output change) / analysis-error / GAP (undetected, output changes) / undetected, no change")
    for (mod, fn), p in sorted(per.items(), key=lambda kv: -kv[1]["gap"]):
        print(f"{p['gap']:3d} gap  {p['det']:3d} det ({p['det_eq']} eq)  {p['err']:2d} err  {p['eq']:3d} eqv  of {p['n']:3d}  {mod}::{fn}")
    tot = {k: sum(p[k] for p in per.values()) for k in ("n", "det", "det_eq", "gap", "eq", "err")}
    print("TOTAL", tot)


if __name__ == "__main__":
    main()
