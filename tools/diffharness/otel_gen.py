"""Development aid (NOT part of any check): deterministic generators for the
OTel->PV differential harness (otel_run_tree.py).

Everything here is pure data generation driven by a `random.Random`; nothing
imports the project under test.
"""
import json
import os

BASE_NS = 1_700_000_000_000_000_000
MINUTE = 60 * 10**9
ALPHABET = ["A", "B", "C", "D", "E", "F"]
JOB_NAMES = ["jobA", "jobB", "jobC"]
APPS = ["app1", "app2"]


# --------------------------------------------------------------------------
# tree templates (shapes) and their instantiation as spans
# --------------------------------------------------------------------------
def gen_template(rng, depth=0, max_depth=3, budget=None):
    """(event_type, [child templates]); depth 0..max_depth => <= 4 levels."""
    if budget is None:
        budget = [14]
    budget[0] -= 1
    etype = rng.choice(ALPHABET)
    if depth >= max_depth or budget[0] <= 0:
        return (etype, [])
    if depth == 0:
        n = rng.choice([1, 2, 2, 3])
    else:
        n = rng.choice([0, 0, 1, 2, 3])
    kids = []
    for _ in range(n):
        if budget[0] <= 0:
            break
        kids.append(gen_template(rng, depth + 1, max_depth, budget))
    return (etype, kids)


def shape_sig(template):
    """Canonical, sibling-order-insensitive signature of a template."""
    etype, kids = template
    return etype + "(" + ",".join(sorted(shape_sig(k) for k in kids)) + ")"


def template_types(template):
    etype, kids = template
    out = [etype]
    for k in kids:
        out.extend(template_types(k))
    return out


def instantiate(rng, template, job_id, job_name, t0, dur, overlap=0.3,
                alt_name_prob=0.0, id_tag="s"):
    """Turn a template into a list of span dicts (pre-order). Children lie
    strictly inside their parent; sibling start times are pairwise distinct.
    """
    spans = []
    counter = [0]

    def rec(tmpl, parent_id, s, e):
        etype, kids = tmpl
        counter[0] += 1
        sid = "%s.%s%d" % (job_id, id_tag, counter[0])
        name = job_name
        if parent_id is not None and rng.random() < alt_name_prob:
            name = rng.choice(JOB_NAMES)
        span = dict(job_name=name, job_id=job_id, event_type=etype,
                    event_id=sid, start=s, end=e, app=rng.choice(APPS),
                    parent=parent_id, children=[])
        spans.append(span)
        k = len(kids)
        if k == 0:
            return sid
        lo, hi = s + 1, e - 1
        windows = []
        if rng.random() < overlap:
            used = set()
            for _ in range(k):
                while True:
                    cs = rng.randint(lo, hi - 2)
                    if cs not in used:
                        used.add(cs)
                        break
                ce = rng.randint(cs + 1, hi)
                windows.append((cs, ce))
        else:
            w = (hi - lo) // k
            for i in range(k):
                a, b = lo + i * w, lo + (i + 1) * w - 1
                cs = a + rng.randint(0, max(0, w // 4))
                ce = b - rng.randint(0, max(0, w // 4))
                windows.append((cs, ce))
            rng.shuffle(windows)
        for kid, (cs, ce) in zip(kids, windows):
            cid = rec(kid, sid, cs, ce)
            span["children"].append(cid)
        return sid

    rec(template, None, t0, t0 + dur)
    return spans


def gen_traces(rng, n_traces, n_templates=3, job_names=None, spread=0,
               overlap=0.3, alt_name_prob=0.0, prefix="t"):
    """Several traces drawn from a few templates. Returns (traces, info)
    where traces = list of span lists and info[job_id] = dict(sig, name)."""
    job_names = job_names or JOB_NAMES
    templates = [gen_template(rng) for _ in range(n_templates)]
    traces, info = [], {}
    for i in range(n_traces):
        tmpl = rng.choice(templates)
        job_id = "%s%02d" % (prefix, i)
        job_name = rng.choice(job_names)
        t0 = BASE_NS + (rng.randint(0, spread) if spread else
                        rng.randint(0, 5 * 10**9))
        dur = rng.randint(10**9, 20 * 10**9)
        spans = instantiate(rng, tmpl, job_id, job_name, t0, dur,
                            overlap=overlap, alt_name_prob=alt_name_prob)
        traces.append(spans)
        info[job_id] = dict(sig=shape_sig(tmpl), name=job_name,
                            types=sorted(template_types(tmpl)))
    return traces, info


# --------------------------------------------------------------------------
# sequencer options
# --------------------------------------------------------------------------
def gen_sequencer(rng, job_names=None):
    job_names = job_names or JOB_NAMES
    seq = {"async_flag": rng.random() < 0.5}
    if rng.random() < 0.25:
        del seq["async_flag"]   # rely on the project's default
    if rng.random() < 0.6:
        groups = {}
        for jn in rng.sample(job_names, rng.randint(1, len(job_names))):
            per_parent = {}
            for parent in rng.sample(ALPHABET, rng.randint(1, 3)):
                kids = rng.sample(ALPHABET, rng.randint(2, 4))
                per_parent[parent] = {
                    k: "g%d" % rng.randint(1, 2) for k in kids
                }
                # a configured group that (likely) never has a matching child
                per_parent[parent]["ZZ"] = "g9"
            groups[jn] = per_parent
        seq["async_event_groups"] = groups
    if rng.random() < 0.5:
        info = {}
        for jn in rng.sample(job_names, rng.randint(1, len(job_names))):
            per_type = {}
            for et in rng.sample(ALPHABET, rng.randint(1, 2)):
                per_type[et] = {
                    "mapped_event_type": et + "_m",
                    "child_event_types": sorted(
                        rng.sample(ALPHABET, rng.randint(1, 3))
                    ),
                }
            info[jn] = per_type
        seq["event_name_map_information"] = info
    return seq


# --------------------------------------------------------------------------
# document styles + field mappings
# --------------------------------------------------------------------------
P = "resource_spans.[].scope_spans.[].spans.[]."


def mapping_otlp(variant):
    """Field mapping for the OTLP-like nested style.
    variant bit0: application_name is a concatenation of two paths
    variant bit1: include child_event_ids (array valued)
    """
    fm = {
        "job_name": {
            "key_paths": ["resource_spans.[].resource.attributes.[].key"],
            "key_value": ["service.name"],
            "value_paths": ["value.Value.StringValue"],
            "value_type": "string",
        },
        "job_id": {"key_paths": [P + "trace_id"], "value_type": "string"},
        "event_type": {
            # priority: attribute app.operation, falling back to span name
            "key_paths": [[P + "attributes.[].key", P + "name"]],
            "key_value": [["app.operation", None]],
            "value_paths": [["value.Value.StringValue", None]],
            "value_type": "string",
        },
        "event_id": {"key_paths": [P + "span_id"], "value_type": "string"},
        "start_timestamp": {
            "key_paths": [P + "start_time_unix_nano"],
            "value_type": "string",
        },
        "end_timestamp": {
            "key_paths": [P + "end_time_unix_nano"],
            "value_type": "string",
        },
        "application_name": {
            "key_paths": ["resource_spans.[].scope_spans.[].scope.name"],
            "value_type": "string",
        },
        "parent_event_id": {
            "key_paths": [P + "parent_span_id"],
            "value_type": "string",
        },
    }
    if variant & 1:
        fm["application_name"] = {
            "key_paths": [
                "resource_spans.[].scope_spans.[].scope.name",
                "resource_spans.[].resource.attributes.[].key",
            ],
            "key_value": [None, "service.version"],
            "value_paths": [None, "value.Value.StringValue"],
            "value_type": "string",
        }
    if variant & 2:
        fm["child_event_ids"] = {
            "key_paths": [P + "child_span_ids"],
            "value_type": "array",
        }
    return fm


def _otlp_span(rng, sp, str_times):
    rec = {
        "trace_id": sp["job_id"],
        "span_id": sp["event_id"],
        "flags": rng.randint(0, 500),
        "kind": rng.randint(1, 5),
        "start_time_unix_nano": sp["start"],
        "end_time_unix_nano": sp["end"],
        "child_span_ids": list(sp["children"]),
        "status": {},
    }
    if str_times:
        rec["start_time_unix_nano"] = str(sp["start"])
        rec["end_time_unix_nano"] = str(sp["end"])
    attrs = [
        {"key": "http.method", "value": {"Value": {"StringValue": "GET"}}},
        {"cloudProvider": "Azure"},
    ]
    if rng.random() < 0.5 and "event_type" in sp:
        # type carried by the attribute; name is a decoy
        attrs.append({"key": "app.operation",
                      "value": {"Value": {"StringValue": sp["event_type"]}}})
        rec["name"] = "decoy-" + sp["event_id"]
    elif "event_type" in sp:
        rec["name"] = sp["event_type"]
    attrs.append({"key": "http.status_code",
                  "value": {"Value": {"IntValue": 200}}})
    rng.shuffle(attrs)
    rec["attributes"] = attrs
    if sp["parent"] is None:
        how = rng.randint(0, 2)
        if how == 0:
            rec["parent_span_id"] = None
        elif how == 1:
            rec["parent_span_id"] = ""
        # how == 2: key absent
    else:
        rec["parent_span_id"] = sp["parent"]
    for k, v in sp.get("override", {}).items():
        if v is _DELETE:
            rec.pop(k, None)
        else:
            rec[k] = v
    return rec


_DELETE = object()


def doc_otlp(rng, spans, str_times=False):
    """One OTLP-like JSON document holding the spans in the given order
    (grouped by service name / scope in first-appearance order)."""
    resources = []
    by_name = {}
    for sp in spans:
        key = sp["job_name"]
        if key not in by_name:
            res = {
                "resource": {"attributes": [
                    {"key": "service.name",
                     "value": {"Value": {"StringValue": key}}},
                    {"key": "service.version",
                     "value": {"Value": {"StringValue": "1.0"}}},
                ]},
                "scope_spans": [],
                "_scopes": {},
            }
            by_name[key] = res
            resources.append(res)
        res = by_name[key]
        if sp["app"] not in res["_scopes"]:
            scope = {"scope": {"name": sp["app"]}, "spans": []}
            res["_scopes"][sp["app"]] = scope
            res["scope_spans"].append(scope)
        res["_scopes"][sp["app"]]["spans"].append(
            _otlp_span(rng, sp, str_times))
    for res in resources:
        del res["_scopes"]
    return {"resource_spans": resources}


def app_name_otlp(sp, variant):
    return sp["app"] + "_1.0" if variant & 1 else sp["app"]


def mapping_flat(wrapped, variant):
    """Field mapping for the flat style (one record per span).
    wrapped: records live under {"spans": [...]}, else each JSON doc is one
    record (json_per_line)."""
    p = "spans.[]." if wrapped else ""
    fm = {
        # priority fallback between two plain keys
        "job_name": {"key_paths": [[p + "svc", p + "service.name"]],
                     "value_type": "string"},
        "job_id": {"key_paths": [p + "ctx.trace"], "value_type": "string"},
        "event_type": {"key_paths": [p + "op.name"], "value_type": "string"},
        "event_id": {"key_paths": [p + "ctx.span"], "value_type": "string"},
        "start_timestamp": {"key_paths": [p + "t.s"],
                            "value_type": "string"},
        "end_timestamp": {"key_paths": [p + "t.e"], "value_type": "string"},
        "application_name": {"key_paths": [p + "app"],
                             "value_type": "string"},
        "parent_event_id": {"key_paths": [p + "ctx.parent"],
                            "value_type": "string"},
    }
    if variant & 2:
        fm["child_event_ids"] = {"key_paths": [p + "kids"],
                                 "value_type": "array"}
    return fm


def rec_flat(rng, sp, str_times=False):
    rec = {
        "ctx": {"trace": sp["job_id"], "span": sp["event_id"],
                "parent": sp["parent"]},
        "op": {"name": sp.get("event_type"), "extra": [1, 2, {"x": None}]},
        "t": {"s": str(sp["start"]) if str_times else sp["start"],
              "e": str(sp["end"]) if str_times else sp["end"]},
        "app": sp["app"],
        "kids": list(sp["children"]),
    }
    if rng.random() < 0.5:
        rec["svc"] = sp["job_name"]
    else:
        rec["service"] = {"name": sp["job_name"]}
    for k, v in sp.get("override", {}).items():
        # dotted override keys address nested entries
        tgt = rec
        parts = k.split(".")
        for part in parts[:-1]:
            tgt = tgt.setdefault(part, {})
        if v is _DELETE:
            tgt.pop(parts[-1], None)
        else:
            tgt[parts[-1]] = v
    return rec


def split_chunks(rng, items, n):
    """Split a list into n contiguous (possibly uneven, non-empty if
    possible) chunks."""
    if n <= 1 or len(items) < n:
        return [list(items)]
    cuts = sorted(rng.sample(range(1, len(items)), n - 1))
    out, prev = [], 0
    for c in cuts + [len(items)]:
        out.append(items[prev:c])
        prev = c
    return out


def write_source(rng, tmpdir, span_chunks, style=None, variant=None,
                 force_single=False, sub="in"):
    """Write the chunks of spans (one chunk per file) in a random document
    style. Returns (json data source config dict, meta) where meta has
    n_files and app_name(sp) -> expected application name."""
    style = style or rng.choice(["otlp", "flat_wrapped", "flat_lines"])
    variant = rng.randint(0, 3) if variant is None else variant
    str_times = rng.random() < 0.4
    indir = os.path.join(tmpdir, sub)
    os.makedirs(indir, exist_ok=True)
    if force_single and len(span_chunks) > 1:
        span_chunks = [[s for ch in span_chunks for s in ch]]
    paths = []
    for i, chunk in enumerate(span_chunks):
        d = indir
        if i % 2 == 1 and len(span_chunks) > 1:
            d = os.path.join(indir, "nested%d" % i)
            os.makedirs(d, exist_ok=True)
        path = os.path.join(d, "file%d.json" % i)
        paths.append(path)
        with open(path, "w", encoding="utf-8") as fh:
            if style == "otlp":
                doc = doc_otlp(rng, chunk, str_times)
                text = json.dumps(doc)
                if rng.random() < 0.3:
                    # control character inside a string (strict=False)
                    text = text[:1] + '"injected": "\x1b", ' + text[1:]
                fh.write(text)
            elif style == "flat_wrapped":
                fh.write(json.dumps(
                    {"meta": {"n": len(chunk)},
                     "spans": [rec_flat(rng, s, str_times) for s in chunk]},
                    indent=rng.choice([None, 1])))
            else:
                for s in chunk:
                    fh.write(json.dumps(rec_flat(rng, s, str_times)) + "\n")
    cfg = {"json_per_line": style == "flat_lines"}
    if style == "otlp":
        cfg["field_mapping"] = mapping_otlp(variant)
        if rng.random() < 0.3:
            # a whole-document-per-line file also works in per-line mode
            cfg["json_per_line"] = True
    else:
        cfg["field_mapping"] = mapping_flat(style == "flat_wrapped", variant)
    if len(paths) == 1 and rng.random() < 0.5:
        cfg["filepath"] = paths[0]
    else:
        cfg["dirpath"] = indir
    meta = dict(n_files=len(paths), style=style, variant=variant)
    return cfg, meta


def ingest_config(json_cfg, db_uri="sqlite:///:memory:", batch_size=5,
                  time_buffer=0, sequencer=None):
    cfg = {
        "ingest_data": {"data_source": "json", "data_holder": "sql"},
        "data_holders": {"sql": {"db_uri": db_uri, "batch_size": batch_size,
                                 "time_buffer": time_buffer}},
        "data_sources": {"json": json_cfg},
    }
    if sequencer is not None:
        cfg["sequencer"] = sequencer
    return cfg
