"""C12 -- every stored trace is streamed once, whole, under one workflow name."""
from __future__ import annotations

import ast
from typing import Optional

from .. import sqlabs as S
from ..core import AnalysisError, FuncInfo, Report, call_name, dotted, unparse
from ..ctx import Ctx
from .sqlutil import sql_of
from .util import (actual, calls_in, enclosing, forwards, kw,
                   stale_yields)

EXPLANATION = (
    "R12.1 the query that feeds the two-level itertools.groupby is ordered "
    "by exactly the grouping keys in grouping order (job_name, job_id), and "
    "the per-trace reader orders by the key it groups on (query normal form "
    "from the builder abstract interpretation + the key lambdas). R12.2 "
    "lazy-iterator typestate: along every consumer chain the stream of "
    "(name, iterable of iterables) is only iterated by for / generator "
    "expressions / yield from or handed to the next chain function; no "
    "list/sorted/len/zip/list-comprehension of an outer level, and an inner "
    "group never escapes its iteration un-consumed. R12.3 every yield of "
    "the streaming generators is lexically inside the session scope. R12.4 "
    "the optional filter is OR over (name, ids) of (job_name == name AND "
    "job_id IN ids). R12.5 child links come from the children relationship "
    "joined parent-side/child-side correctly and every span field is copied "
    "from the row's field of the same name. R12.6 every row of the query is "
    "yielded (no limit, no condition)."
    " Added: stream variables are identified by how they are bound; a broken trace is skipped without ending the stream and never re-yields the previous trace; R12.6 every row is yielded.")
TRUSTED = ["builder-method semantics table of sa/sqlabs.py",
           "itertools.groupby semantics: a sub-iterator dies when its parent "
           "advances; groups form only on consecutive equal keys"]
NOT_DECIDED = ["database collation of job_name / job_id ordering"]
ASSUMPTIONS: list[str] = []

EAGER = {"list", "sorted", "tuple", "set", "len", "reversed", "zip", "max",
         "min", "sum", "dict", "frozenset", "any", "all"}
LAZY_WRAPPERS = {"tqdm", "groupby", "enumerate", "iter", "chain", "islice"}

# (function, local name that carries an outer level of the lazy stream)
# The variables that carry a lazily grouped stream, per function.  They are
# identified by *how they are bound*, never by their spelling (parameters by
# the pinned signature, see core.normalise_params):
#   "P:<param>"         the parameter <param>
#   "C:<f>|<g>"         the local bound from a call of f(...) or g(...)
#   "G"                 the local bound from a generator expression
#   "T:<sel>/<i>"       element i of the tuple target of the for / comprehension
#                       that iterates over the variable selected by <sel>
#                       (looked through groupby(...) / enumerate-free wrappers)
CHAIN = [
    ("otel_to_pv", "C:stream_data"),
    ("otel_to_pv", "G"),
    ("otel_to_pv", "T:C:stream_data/1"),
    ("otel_to_pv", "T:G/1"),
    ("sequence_otel_job_id_streams", "P:job_id_streams"),
    ("job_ids_to_eventid_to_otelevent_map", "P:job_id_streams"),
    ("handle_save_events", "P:pv_event_streams"),
    ("pv_streams_to_puml_files", "P:pv_streams"),
    ("pv_streams_to_puml_files", "T:P:pv_streams/1"),
    ("pv_to_puml_file", "P:pv_stream"),
    ("pv_to_puml_string", "P:pv_stream"),
    ("update_and_create_events_from_clustered_pvevents", "P:clustered_events"),
    ("get_graph_solutions_from_clustered_events", "P:clustered_events"),
    ("wrap_generator_with_tqdm_start_and_end_messages", "P:generator"),
    ("otel_to_puml", "C:wrap_generator_with_tqdm_start_and_end_messages|"
                     "otel_to_pv|pv_files_to_pv_streams"),
    ("SQLDataHolder.stream_data", "C:stream_job_name_batches"),
    ("SQLDataHolder.stream_data", "T:C:stream_job_name_batches/1"),
    ("SQLDataHolder.stream_data", "G"),
]


def chain_var(ctx: Ctx, fi: FuncInfo, sel: str) -> str:
    """Resolve a selector of the CHAIN table to the name used in ``fi``."""
    defs = ctx.defs(fi)

    def fail(why: str) -> AnalysisError:
        return AnalysisError(
            f"{fi.qualname}: stream variable '{sel}' not found ({why}); the "
            "lazy stream is carried differently - update the chain table")
    if sel.startswith("P:"):
        name = sel[2:]
        if not defs.is_param(name):
            raise fail("no such parameter")
        return name
    if sel.startswith("C:"):
        callees = set(sel[2:].split("|"))
        names = {b.name for bs in defs.bindings.values() for b in bs
                 if b.kind == "assign" and isinstance(b.value, ast.Call)
                 and call_name(b.value) in callees
                 and isinstance(b.target, ast.Name)}
        if len(names) > 1:
            # drop pure temporaries: names whose every use is inside the
            # value bound to another candidate (hoisted argument)
            def only_feeds_other(n: str) -> bool:
                loads = [x for x in ast.walk(fi.node) if isinstance(
                    x, ast.Name) and x.id == n and isinstance(x.ctx, ast.Load)]
                vals = [b.value for m in names if m != n
                        for b in defs.of(m) if b.value is not None]
                return bool(loads) and all(
                    any(any(y is x for y in ast.walk(v)) for v in vals)
                    for x in loads)
            names = {n for n in names if not only_feeds_other(n)}
        if len(names) != 1:
            raise fail(f"{len(names)} locals bound from {sorted(callees)}")
        return names.pop()
    if sel == "G":
        names = {b.name for bs in defs.bindings.values() for b in bs
                 if b.kind == "assign" and isinstance(b.value,
                                                      ast.GeneratorExp)
                 and isinstance(b.target, ast.Name)}
        if len(names) != 1:
            raise fail(f"{len(names)} locals bound from a generator "
                       "expression")
        return names.pop()
    if sel.startswith("T:"):
        inner, idx = sel[2:].rsplit("/", 1)
        src = chain_var(ctx, fi, inner)
        names = set()
        for bs in defs.bindings.values():
            for b in bs:
                if b.kind not in ("for", "comp") or b.value is None:
                    continue
                it = b.value
                while isinstance(it, ast.Call) and it.args and not isinstance(
                        it.args[0], ast.Starred):
                    it = it.args[0]   # groupby(x, ..) / tqdm(x) / list(x) ..
                if not (isinstance(it, ast.Name) and it.id == src):
                    continue
                t = b.target
                if isinstance(t, (ast.Tuple, ast.List)) and len(t.elts) > int(
                        idx) and isinstance(t.elts[int(idx)], ast.Name) \
                        and t.elts[int(idx)].id == b.name:
                    names.add(b.name)
        if len(names) != 1:
            raise fail(f"{len(names)} loop targets over '{src}'")
        return names.pop()
    raise fail("bad selector")


def check(rep: Report, ctx: Ctx) -> None:
    sql = sql_of(ctx)
    one_query = r128(rep, ctx)
    if not one_query:
        # the rules below read "the" streamed query; with several queries
        # chained they have no subject - R12.8 has already reported why
        for r in ("R12.1", "R12.4"):
            rep.minima[r] = 0
    else:
        r121(rep, ctx, sql)
        r124(rep, ctx, sql)
    r122(rep, ctx)
    r123(rep, ctx)
    r125(rep, ctx, sql)
    r127(rep, ctx, sql)
    r129(rep, ctx)
    r1210(rep, ctx)


def r128(rep: Report, ctx: Ctx) -> bool:
    """The consumers group the row stream with itertools.groupby, which only
    merges ADJACENT rows: the stream must be sorted by the group key as a
    whole.  One ORDER BY query is; the concatenation of several ordered
    queries (one per slice of a filter, chained) is sorted within each piece
    only, and a workflow name comes out once per piece with part of its
    traces."""
    from ..roles import Roles
    rep.rule("R12.8", "the grouped row stream is ONE ordered query", 1)
    fi = ctx.func("SQLDataHolder.stream_job_name_batches")
    R = Roles(ctx, fi)
    loops = [l for l in ast.walk(fi.node) if isinstance(l, ast.For) and any(
        isinstance(y, (ast.Yield, ast.YieldFrom)) for y in ast.walk(l))]
    ok, why = False, f"{len(loops)} yielding loop(s)"
    if len(loops) == 1:
        reach = ctx.reach(fi)
        e = loops[0].iter
        at = loops[0]
        chain_methods: list[str] = []
        shape = "?"
        for _ in range(40):
            if isinstance(e, ast.Name):
                bs = reach.at(at, e.id)
                if len(bs) == 1 and bs[0].kind == "assign":
                    e, at = bs[0].value, bs[0].stmt
                    continue
                if bs and all(b.kind == "assign" for b in bs):
                    # re-bound along the way (query = query.filter(..)):
                    # every definition must itself be a query chain; follow
                    # the textually last one for the ordering clause
                    b = max(bs, key=lambda x: x.stmt.lineno)
                    e, at = b.value, b.stmt
                    continue
                shape = f"name {e.id}"
                break
            if isinstance(e, ast.Call) and isinstance(e.func, ast.Name) \
                    and e.func.id in ("tqdm", "iter") and e.args:
                e = e.args[0]
                continue
            if isinstance(e, ast.Call) and isinstance(e.func, ast.Attribute):
                chain_methods.append(e.func.attr)
                e = e.func.value
                continue
            shape = type(e).__name__ if not isinstance(e, ast.Name) else shape
            break
        base_ok = "query" in chain_methods and shape in ("name session",
                                                         "?") or (
            isinstance(e, ast.Name))
        n_order = chain_methods.count("order_by")
        # (whether that one query is ordered by the right key, filtered and
        # not truncated is the business of R12.1 / R12.4)
        ok = n_order <= 1 and "query" in chain_methods and base_ok
        why = (f"rows come from the method chain {chain_methods[::-1]} on "
               f"{shape}" + ("" if ok else " -- not a single ordered query "
               "(a concatenation / generator over several queries is sorted "
               "piecewise, not as a whole)"))
    rep.ob("R12.8", "the rows that are yielded come from a single "
           "query.order_by(..) object", ok, fi=fi,
           node=loops[0] if loops else fi.node, detail=why)
    return ok


def _lambda_attr(e: Optional[ast.AST]) -> Optional[str]:
    if isinstance(e, ast.Lambda) and isinstance(e.body, ast.Attribute) \
            and isinstance(e.body.value, ast.Name) and e.args.args \
            and e.body.value.id == e.args.args[0].arg:
        return e.body.attr
    if isinstance(e, ast.Call) and call_name(e) == "attrgetter" and e.args \
            and isinstance(e.args[0], ast.Constant):
        return e.args[0].value
    return None


def r121(rep: Report, ctx: Ctx, sql) -> None:
    rep.rule("R12.1", "sort keys = grouping keys, in order", 4)
    batches = ctx.func("SQLDataHolder.stream_job_name_batches")
    stream = ctx.func("SQLDataHolder.stream_data")
    it = sql.run(batches, follow=False)
    mains = [x for x in it.execs if x.kind == "read"
             and isinstance(x.stmt, S.Select) and x.stmt.order_by]
    if len(mains) != 1:
        reads = [x for x in it.execs if x.kind == "read"]
        rep.ob("R12.1", "the streamed query is ordered", False, fi=batches,
               node=reads[-1].node if reads else batches.node,
               detail="no ORDER BY on the streamed query: groupby only "
                      "groups consecutive rows, so a trace interleaved with "
                      "another is split into several partial traces")
        return
    q = mains[0].stmt
    order = [c.nf() for c in q.order_by]
    gbs = [c for c in ast.walk(stream.node) if isinstance(c, ast.Call)
           and call_name(c) == "groupby"]
    if len(gbs) != 2:
        raise AnalysisError(f"{stream.qualname}: expected two groupby calls, "
                            f"found {len(gbs)}")
    defs = ctx.defs(stream)
    # outer = the one whose iterable derives from stream_job_name_batches
    outer = inner = None
    for g in gbs:
        src = defs.resolve(g.args[0]) if g.args else None
        if isinstance(src, ast.Call) and call_name(src) == batches.name:
            outer = g
        else:
            inner = g
    if outer is None or inner is None:
        raise AnalysisError(f"{stream.qualname}: cannot tell outer/inner "
                            "groupby")
    k_out = _lambda_attr(kw(outer, "key") or (outer.args[1] if len(
        outer.args) > 1 else None))
    k_in = _lambda_attr(kw(inner, "key") or (inner.args[1] if len(
        inner.args) > 1 else None))
    want = [f"nodes.{k_out}", f"nodes.{k_in}"]
    rep.ob("R12.1", "ORDER BY starts with (outer key, inner key)",
           order[:2] == want, fi=batches, node=mains[0].node,
           detail=f"ORDER BY {order}; groupby keys outer={k_out} "
                  f"inner={k_in}" + ("" if order[:2] == want else
                                    " -- rows of one group are not "
                                    "guaranteed consecutive"))
    rep.ob("R12.1", "outer key is the workflow name, inner key the trace id",
           (k_out, k_in) == ("job_name", "job_id"), fi=stream, node=outer,
           detail=f"outer={k_out}, inner={k_in}")
    # the inner groupby iterates the outer group
    loops = enclosing(stream.node, inner, (ast.For,))
    grp = None
    if loops and isinstance(loops[-1].target, ast.Tuple) and len(
            loops[-1].target.elts) == 2 and isinstance(
            loops[-1].target.elts[1], ast.Name):
        grp = loops[-1].target.elts[1].id
    ok = grp is not None and inner.args and isinstance(
        inner.args[0], ast.Name) and inner.args[0].id == grp and loops[
        -1].iter is outer
    rep.ob("R12.1", "the inner grouping runs over the outer group", ok,
           fi=stream, node=inner, detail=f"groupby({unparse(inner.args[0])}"
           f", key=job_id) inside `for _, {grp} in groupby(..job_name)`")
    # the database orders by the columns' collation, Python groups by string
    # equality: they agree only for the default (binary) collation
    nm = ctx.index.cls("NodeModel")
    for col in ("job_name", "job_id"):
        decl = [st for n_, st in nm.fields() if n_ == col]
        coll = None
        if decl and decl[0].value is not None:
            for c_ in ast.walk(decl[0].value):
                if isinstance(c_, ast.keyword) and c_.arg == "collation":
                    coll = unparse(c_.value)
        ok = coll is None or coll.strip("'\"").upper() == "BINARY"
        rep.ob("R12.1", f"nodes.{col} sorts the way Python compares strings",
               ok, detail=("default collation" if coll is None else
                           f"collation {coll}: ORDER BY treats values as "
                           "equal / ordered differently from the "
                           "case-sensitive groupby over the stream - a "
                           "workflow name is yielded several times with "
                           "part of its traces"))
        rep.obligations[-1].func = nm.qualname
        rep.obligations[-1].file = nm.module.relpath
        rep.obligations[-1].line = decl[0].lineno if decl else 0
    # per-trace reader
    rd = ctx.func("SQLDataHolder.get_otel_events_from_job_ids")
    it2 = sql.run(rd, follow=False)
    reads = [x for x in it2.execs if x.kind == "read"]
    s = reads[0].stmt if reads else None
    order2 = [c.nf() for c in s.order_by] if isinstance(s, S.Select) else []
    cmpn = [n for n in ast.walk(rd.node) if isinstance(n, ast.Compare)
            and len(n.ops) == 1 and isinstance(n.ops[0], ast.NotEq)
            and (unparse(n.comparators[0]).endswith(".job_id")
                 or unparse(n.left).endswith(".job_id"))]
    rep.ob("R12.1", "per-trace reader orders by the key it groups on",
           order2[:1] == ["nodes.job_id"] and bool(cmpn), fi=rd,
           node=reads[0].node if reads else rd.node,
           detail=f"ORDER BY {order2}; group boundary test "
                  f"'{unparse(cmpn[0]) if cmpn else '<missing>'}'")


def per_trace_skip(rep: Report, ctx: Ctx, rule: str) -> None:
    """(shared with C08)  A trace that cannot be materialised is skipped on
    its own: an exception handler sits inside the per-trace iteration, never
    around it."""
    # a trace that cannot be materialised is skipped on its own: an exception
    # handler must sit inside the per-trace iteration, never around it
    jm = ctx.func("job_ids_to_eventid_to_otelevent_map")
    jv = chain_var(ctx, jm, "P:job_id_streams")
    for tr in [t for t in ast.walk(jm.node) if isinstance(t, ast.Try)]:
        if not tr.handlers:
            continue
        consumed = [n for st in tr.body for n in ast.walk(st)
                    if (isinstance(n, (ast.For, ast.comprehension))
                        and any(isinstance(x, ast.Name) and x.id == jv
                                for x in ast.walk(n.iter)))
                    or (isinstance(n, ast.Call) and any(
                        isinstance(a, ast.Name) and a.id == jv
                        for a in n.args))]
        swallowing = [h for h in tr.handlers if not any(
            isinstance(x, ast.Raise) for st in h.body for x in ast.walk(st))]
        rep.ob(rule, "a broken trace is skipped without ending the "
               "stream", not (consumed and swallowing), fi=jm, node=tr,
               detail=("the try statement encloses the iteration over "
                       f"'{jv}': the first trace that raises ends the "
                       "generator, every later trace of the workflow is "
                       "never delivered" if consumed and swallowing else
                       "the handler is inside the per-trace iteration"))


def per_trace_fresh(rep: Report, ctx: Ctx, rule: str) -> None:
    """(shared with C08)  What is yielded for a trace was built from that
    trace: no path through the skip handler re-emits the previous one."""
    jm = ctx.func("job_ids_to_eventid_to_otelevent_map")
    jv = chain_var(ctx, jm, "P:job_id_streams")
    loops = [l for l in ast.walk(jm.node) if isinstance(l, ast.For)
             and any(isinstance(x, ast.Name) and x.id == jv
                     for x in ast.walk(l.iter))]
    stale = [s_ for l in loops for s_ in stale_yields(ctx, jm, l)]
    rep.ob(rule, "a yielded trace map is the one built from the current "
           "trace", not stale, fi=jm, node=stale[0][0] if stale else jm.node,
           detail=(f"'{stale[0][1]}' can reach the yield without having been "
                   "bound in this iteration (through the handler that skips "
                   "a broken trace): the previous trace is delivered a "
                   "second time" if stale else
                   "every yielded value is bound on every path of the "
                   "iteration that yields it"))


def r122(rep: Report, ctx: Ctx) -> None:
    rep.rule("R12.2", "nested lazy groups are consumed in order", 14)
    chain_funcs = {f for f, _ in CHAIN} | {
        "save_pv_event_stream_to_file", "handle_save_events",
        "sequence_otel_jobs", "pv_to_puml_file",
        "convert_otel_event_stream_to_event_id_to_otelevent_map",
        "update_and_create_events_from_graph_solutions", "stream_data",
        "stream_job_name_batches", "otel_to_pv", "pv_files_to_pv_streams"}
    chain_short = {f.split(".")[-1] for f in chain_funcs}
    for fname, sel in CHAIN:
        fi = ctx.func(fname)
        var = chain_var(ctx, fi, sel)
        pm = ctx.index.parents(fi)
        loads = [n for n in ast.walk(fi.node) if isinstance(n, ast.Name)
                 and n.id == var and isinstance(n.ctx, ast.Load)]
        stores = [n for n in ast.walk(fi.node)
                  if (isinstance(n, ast.Name) and n.id == var and isinstance(
                      n.ctx, ast.Store)) or (isinstance(n, ast.arg)
                                             and n.arg == var)]
        if not loads and not stores:
            raise AnalysisError(
                f"{fi.qualname}: chain variable '{var}' vanished (the lazy "
                "stream is carried differently; update the chain table)")
        bad: list[tuple[ast.AST, str]] = []
        for n in loads:
            p = pm.get(n)
            verdict = _use_kind(n, p, pm, chain_short)
            if verdict is not None:
                bad.append((p if p is not None else n, verdict))
        rep.ob("R12.2", f"{fi.short}: '{var}' is only streamed", not bad,
               fi=fi, node=bad[0][0] if bad else (loads[0] if loads
                                                  else fi.node),
               detail=(bad[0][1] if bad else
                       f"{len(loads)} use(s): for / generator expression / "
                       "yield from / argument of the next chain function"))
    # inner groups do not escape their iteration un-consumed
    for fname, var, inner_ok in (
            ("handle_save_events", "pv_event_streams",
             "save_pv_event_stream_to_file"),
            ("job_ids_to_eventid_to_otelevent_map", "job_id_streams",
             "convert_otel_event_stream_to_event_id_to_otelevent_map")):
        fi = ctx.func(fname)
        loops = [l for l in ast.walk(fi.node) if isinstance(l, ast.For)
                 and ((isinstance(l.iter, ast.Name) and l.iter.id == var)
                      or (isinstance(l.iter, ast.Call) and call_name(l.iter)
                          == "enumerate" and l.iter.args and isinstance(
                              l.iter.args[0], ast.Name)
                          and l.iter.args[0].id == var))]
        ok, why = False, "no loop over the stream"
        tgt = None
        if len(loops) == 1:
            tgt = loops[0].target
            if isinstance(tgt, ast.Tuple) and isinstance(
                    loops[0].iter, ast.Call) and len(tgt.elts) == 2:
                tgt = tgt.elts[1]
        if len(loops) == 1 and isinstance(tgt, ast.Name):
            iv = tgt.id
            uses = [n for n in ast.walk(loops[0]) if isinstance(n, ast.Name)
                    and n.id == iv and isinstance(n.ctx, ast.Load)]
            pm = ctx.index.parents(fi)
            def _callee_of(u: ast.AST) -> Optional[str]:
                par = pm.get(u)
                if isinstance(par, ast.keyword):
                    par = pm.get(par)
                return call_name(par) if isinstance(par, ast.Call) else None
            ok = bool(uses) and all(_callee_of(u) == inner_ok for u in uses)
            why = (f"each '{iv}' is handed to {inner_ok}(), which "
                   "materialises it before the next group is requested")
        rep.ob("R12.2", f"{fi.short}: inner groups are consumed in place",
               ok, fi=fi, node=loops[0] if loops else fi.node, detail=why)
    per_trace_skip(rep, ctx, "R12.2")
    per_trace_fresh(rep, ctx, "R12.2")
    conv = ctx.func("convert_otel_event_stream_to_event_id_to_otelevent_map")
    p0 = conv.params()[0]
    loops = [l for l in ast.walk(conv.node) if isinstance(l, ast.For)
             and isinstance(l.iter, ast.Name) and l.iter.id == p0]
    returns_map = [r for r in ast.walk(conv.node) if isinstance(r, ast.Return)]
    ok = len(loops) == 1 and not any(isinstance(x, (ast.Break, ast.Return))
                                     for x in ast.walk(loops[0])) \
        and not any(isinstance(x, (ast.Yield, ast.YieldFrom))
                    for x in ast.walk(conv.node))
    rep.ob("R12.2", "a trace is materialised to exhaustion before "
           "sequencing", ok, fi=conv, node=loops[0] if loops else conv.node,
           detail="one loop over the whole stream, no early exit, eager "
                  "(not a generator)")
    st = [x for x in ast.walk(conv.node) if isinstance(x, ast.Assign)
          and isinstance(x.targets[0], ast.Subscript)]
    lv = loops[0].target.id if loops and isinstance(
        loops[0].target, ast.Name) else "?"
    ok = len(st) == 1 and unparse(st[0].targets[0].slice) == \
        f"{lv}.event_id" and unparse(st[0].value) == lv and not enclosing(
            conv.node, st[0], (ast.If,))
    rep.ob("R12.2", "every span of the trace enters the map under its own "
           "id", ok, fi=conv, node=st[0] if st else conv.node,
           detail=unparse(st[0])[:80] if st else "<missing>")
    saver = ctx.func("save_pv_event_stream_to_file")
    p = "pv_event_stream"
    uses = [n for n in ast.walk(saver.node) if isinstance(n, ast.Name)
            and n.id == p and isinstance(n.ctx, ast.Load)]
    pm = ctx.index.parents(saver)
    ok = bool(uses) and all(
        (isinstance(pm.get(u), ast.Call) and call_name(pm.get(u)) == "list")
        or isinstance(pm.get(u), ast.comprehension) for u in uses)
    rep.ob("R12.2", "the saver materialises each trace", ok, fi=saver,
           node=uses[0] if uses else saver.node,
           detail="list(pv_event_stream) / list comprehension over it")


def _use_kind(n: ast.Name, p: Optional[ast.AST], pm, chain_short: set[str]
              ) -> Optional[str]:
    """None when the use keeps the stream lazy and ordered; otherwise the
    reason it does not."""
    if isinstance(p, ast.For) and p.iter is n:
        return None
    if isinstance(p, ast.comprehension) and p.iter is n:
        owner = pm.get(p)
        if isinstance(owner, ast.GeneratorExp):
            return None
        return (f"'{n.id}' is consumed by a "
                f"{type(owner).__name__} ('{unparse(owner)[:60]}'): the "
                "outer level is materialised while the inner groups are "
                "still unread, so they come out empty")
    if isinstance(p, ast.YieldFrom):
        return None
    if isinstance(p, (ast.Return,)):
        return None
    if isinstance(p, ast.Tuple):
        gp = pm.get(p)
        if isinstance(gp, (ast.Yield, ast.Return, ast.GeneratorExp)):
            return None
        if isinstance(gp, ast.Expr) and isinstance(
                getattr(gp, "value", None), ast.Yield):
            return None
        return None if isinstance(gp, ast.Yield) else \
            f"'{n.id}' stored in a tuple ('{unparse(gp)[:60]}')"
    if isinstance(p, ast.Call):
        cn = call_name(p) or ""
        if n is p.func:
            return None
        if cn in EAGER and isinstance(p.func, ast.Name):
            return (f"{cn}({n.id}) materialises / consumes an outer level of "
                    "the lazily grouped stream before the inner groups are "
                    "read")
        if cn in LAZY_WRAPPERS or cn in chain_short:
            return None
        return (f"'{n.id}' is passed to {cn}(), which is not a known "
                "streaming consumer")
    if isinstance(p, ast.keyword):
        gp = pm.get(p)
        cn = call_name(gp) or ""
        if cn in chain_short or cn in LAZY_WRAPPERS:
            return None
        return f"'{n.id}' is passed to {cn}()"
    if isinstance(p, ast.Starred):
        return f"*{n.id} unpacks the whole stream"
    if isinstance(p, ast.Subscript):
        return f"{n.id}[...] indexes a stream"
    if isinstance(p, ast.Assign):
        return None if isinstance(p.targets[0], ast.Name) else \
            f"'{n.id}' stored into '{unparse(p.targets[0])}'"
    if isinstance(p, (ast.If, ast.BoolOp, ast.UnaryOp, ast.Compare)):
        return None  # truthiness of the generator object itself
    return f"'{n.id}' used in {type(p).__name__}"


def r123(rep: Report, ctx: Ctx) -> None:
    rep.rule("R12.3", "rows are turned into spans inside the session scope",
             3)
    for spec in ("SQLDataHolder.stream_data",
                 "SQLDataHolder.get_otel_events_from_job_ids"):
        fi = ctx.func(spec)
        ys = [y for y in ast.walk(fi.node) if isinstance(y, (ast.Yield,
                                                             ast.YieldFrom))]
        if not ys:
            raise AnalysisError(f"{fi.qualname}: no yield")
        for y in ys:
            ws = enclosing(fi.node, y, (ast.With,))
            ok = any("session" in unparse(i.context_expr) for w in ws
                     for i in w.items)
            rep.ob("R12.3", f"{fi.short}: yield inside `with ...session`",
                   ok, fi=fi, node=y,
                   detail="children are lazy-loaded: outside the session "
                          "scope node.children raises DetachedInstanceError "
                          "or the cursor is closed")
    sd = ctx.func("SQLDataHolder.stream_data")
    b = ctx.func("SQLDataHolder.stream_job_name_batches")
    forwards(rep, ctx, "R12.3", sd, b, {
        "session": lambda e: isinstance(e, ast.Name),
        "job_name_to_job_ids_map": "job_name_to_job_ids_map",
        "filter_job_names": "filter_job_names"})


def r124(rep: Report, ctx: Ctx, sql) -> None:
    rep.rule("R12.4", "filter algebra", 3)
    batches = ctx.func("SQLDataHolder.stream_job_name_batches")
    it = sql.run(batches, follow=False)
    mains = [x for x in it.execs if x.kind == "read"
             and isinstance(x.stmt, S.Select) and (x.stmt.order_by
                                                   or x.stmt.where)]
    if not mains:
        raise AnalysisError(f"{batches.qualname}: streamed query not found")
    x = mains[-1]
    q = x.stmt
    gs = [w for w in q.where if isinstance(w, S.Guarded)]
    plain = [w for w in q.where if not isinstance(w, S.Guarded)]
    rep.ob("R12.4", "without filters every stored span is streamed",
           not plain and q.window is None and not q.joins and not any(
               e.startswith(("limit", "offset")) for e in q.extras)
           and [c.nf() for c in q.cols] == ["nodes"], fi=batches,
           node=x.node,
           detail=f"unconditional clauses: {[w.nf()[:60] for w in plain]}; "
                  f"window {q.window}")
    mapf = [g for g in gs if g.test == "job_name_to_job_ids_map"]
    ok, why = False, "no clause guarded by the (name -> ids) map"
    if len(mapf) == 1:
        f = mapf[0].item
        why = f.nf()[:200]
        if isinstance(f, S.Or) and len(f.items) == 1 and isinstance(
                f.items[0], S.ForEach):
            fe = f.items[0]
            e = fe.elt
            if isinstance(e, S.And) and len(e.items) == 2:
                name_c = [i.col_left() for i in e.items
                          if isinstance(i, S.Cmp)]
                name_c = [i for i in name_c
                          if i.op == "==" and isinstance(i.left, S.Col)
                          and i.left.nf() == "nodes.job_name"
                          and isinstance(i.right, S.Param)]
                ids_c = [i for i in e.items if isinstance(i, S.In)
                         and not i.negated and isinstance(i.col, S.Col)
                         and i.col.nf() == "nodes.job_id"
                         and isinstance(i.what, S.Param)]
                if name_c and ids_c:
                    tgt = fe.target.replace(" ", "").strip("()").split(",")
                    ok = tgt == [name_c[0].right.text, ids_c[0].what.text] \
                        and fe.iter.endswith(".items()") \
                        and fe.iter.startswith("job_name_to_job_ids_map")
        elif isinstance(f, S.And):
            why += " -- AND over the pairs selects nothing for two workflows"
    rep.ob("R12.4", "filter = OR over (name, ids) of (job_name == name AND "
           "job_id IN ids)", ok, fi=batches, node=x.node, detail=why)
    namef = [g for g in gs if g.test == "filter_job_names"]
    ok = len(namef) == 1 and isinstance(namef[0].item, S.In) \
        and not namef[0].item.negated \
        and namef[0].item.col.nf() == "nodes.job_name" \
        and isinstance(namef[0].item.what, S.Param) \
        and namef[0].item.what.text == "filter_job_names"
    rep.ob("R12.4", "name filter = job_name IN names", ok, fi=batches,
           node=x.node,
           detail=namef[0].item.nf() if namef else "<missing>")
    # every row is yielded
    loops = [l for l in ast.walk(batches.node) if isinstance(l, ast.For)]
    ys = [y for y in ast.walk(batches.node) if isinstance(y, ast.Yield)]
    ok = len(ys) == 1 and len(loops) >= 1 and not enclosing(
        batches.node, ys[0], (ast.If, ast.Try)) and isinstance(
        ys[0].value, ast.Call) and call_name(ys[0].value) == \
        "node_to_otel_event"
    rep.rule("R12.6", "every row of the query is yielded as a span", 1)
    rep.ob("R12.6", "unconditional yield of node_to_otel_event(row)", ok,
           fi=batches, node=ys[0] if ys else batches.node,
           detail="for node in query: yield self.node_to_otel_event(node)")


def r125(rep: Report, ctx: Ctx, sql) -> None:
    rep.rule("R12.5", "child links and span fields", 12)
    sch = sql.schema
    rel = sch.relationships.get("nodes", {}).get("children")
    if rel is None:
        raise AnalysisError("NodeModel.children relationship not found")
    pj = rel.get("primaryjoin", "").replace(" ", "")
    sj = rel.get("secondaryjoin", "").replace(" ", "")
    okp = pj in ("event_id==NODE_ASSOCIATION.c.parent_id",
                 "NODE_ASSOCIATION.c.parent_id==event_id")
    oks = sj in ("event_id==NODE_ASSOCIATION.c.child_id",
                 "NODE_ASSOCIATION.c.child_id==event_id")
    rep.ob("R12.5", "children: primary join on the link's parent side", okp,
           detail=f"primaryjoin={rel.get('primaryjoin')}"
           + ("" if okp else " -- swapped joins turn children into parents"))
    rep.obligations[-1].func = "NodeModel.children"
    rep.obligations[-1].file = "tel2puml/otel_to_pv/data_holders/" \
        "sql_data_holder/data_model.py"
    rep.ob("R12.5", "children: secondary join on the link's child side", oks,
           detail=f"secondaryjoin={rel.get('secondaryjoin')}")
    rep.obligations[-1].func = "NodeModel.children"
    rep.ob("R12.5", "children go through NODE_ASSOCIATION",
           rel.get("secondary") == "NODE_ASSOCIATION",
           detail=f"secondary={rel.get('secondary')}")
    rep.obligations[-1].func = "NodeModel.children"
    # the joins above compare bare span ids: a link (parent_id, child_id)
    # denotes ONE stored span on each side only if the span id is a key of
    # the span table on its own
    uq = "event_id" in sch.unique.get("nodes", set())
    rep.ob("R12.5", "the join column is a key of the span table on its own",
           uq, detail=f"unique columns of nodes: "
           f"{sorted(sch.unique.get('nodes', set()))}"
           + ("" if uq else " -- with a key that is only unique per trace "
              "a parent lists the spans of OTHER traces that share a child's "
              "id (child ids repeated, foreign spans linked)"))
    rep.obligations[-1].func = "NodeModel"
    rep.obligations[-1].file = "tel2puml/otel_to_pv/data_holders/" \
        "sql_data_holder/data_model.py"
    conv = ctx.func("SQLDataHolder.node_to_otel_event")
    ctor = [c for c in ast.walk(conv.node) if isinstance(c, ast.Call)
            and call_name(c) == "OTelEvent"]
    if len(ctor) != 1:
        raise AnalysisError(f"{conv.qualname}: expected one OTelEvent(...)")
    p = conv.params()[0]
    ev = ctx.index.cls("OTelEvent")
    for name, _ in ev.fields():
        v = kw(ctor[0], name)
        if name == "child_event_ids":
            ok = isinstance(v, ast.ListComp) and isinstance(
                v.elt, ast.Attribute) and v.elt.attr == "event_id" \
                and unparse(v.generators[0].iter) == f"{p}.children" \
                and not v.generators[0].ifs
        else:
            ok = isinstance(v, ast.Attribute) and v.attr == name \
                and isinstance(v.value, ast.Name) and v.value.id == p
        rep.ob("R12.5", f"span.{name} <- row.{name}", ok, fi=conv,
               node=ctor[0], detail=f"{name} = {unparse(v)}")


def r127(rep: Report, ctx: Ctx, sql) -> None:
    """(shared with C11 R11.5)  "under one workflow name": the stream is
    ordered and grouped by (job_name, job_id); a trace whose spans carry two
    names is yielded in pieces.  One name per trace is established by the
    name propagation from the trace's root row to EVERY span of the trace."""
    rep.rule("R12.7", "every span of a trace carries the name of the "
             "trace's root row before the stream groups by name", 1)
    from .c11 import _rename
    fi = ctx.func("SQLDataHolder.update_job_names_by_root_span")
    sub = Report("C11", ctx.index)
    sub.rule("R11.5", "", 0)
    _rename(sub, fi, sql.run(fi))
    for o in sub.obligations:
        o.rule = "R12.7"
        rep.obligations.append(o)
    rep.funcs_seen |= sub.funcs_seen


def r129(rep: Report, ctx: Ctx) -> None:
    """(shared with C10 R10.7 / C11 R11.9)  The trace's name is taken from
    its root row, found by ``parent_event_id IS NULL``: a root span whose
    empty parent id is stored as '' is a root for nobody, its trace keeps the
    per-span names and is streamed in pieces under several workflow names
    (seed C12-y)."""
    rep.rule("R12.9", "every site agrees on which spans are roots (None, "
             "empty and real parent ids; = C10 R10.7 / C11 R11.9)", 3)
    from .c10 import root_classification
    root_classification(rep, ctx, "R12.9")


def r1210(rep: Report, ctx: Ctx) -> None:
    """(shared with C10 R10.5 / C11 R11.10)  "whole": the streamed span lists
    its children through the link rows; a link that is queued apart from its
    span is dropped when the next batch goes through the duplicate filter,
    and the parent is streamed without that child (seed C12-z)."""
    rep.rule("R12.10", "the link row of every child reaches the store: span "
             "and link are queued together and flushed together (= C10 "
             "R10.5)", 6)
    from . import c10 as _c10
    from .util import borrow
    borrow(rep, ctx, _c10, "C10", "R10.5", "R12.10")
