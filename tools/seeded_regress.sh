#!/usr/bin/env bash
# For every /verif/seeded/<id>/patch.diff: apply to /repo, run every quick
# check, revert.  Prints "<seed> : <checks with rc!=0> :: <rules fired>".
cd /verif
for d in /verif/seeded/*/; do
  id=$(basename "$d")
  res=$(tools/try_seed.sh "${d}patch.diff" 2>&1)
  out=$(echo "$res" | grep -E "^C[0-9]+ rc=[12]" | sed -E 's/^(C[0-9]+) rc=([0-9]).*/\1(rc\2)/' | tr '\n' ' ')
  rules=$(echo "$res" | grep -oE "VIOLATED R[0-9.]+|ANALYSIS-ERROR" | sort -u | tr '\n' ' ')
  echo "$id : ${out:-none} :: ${rules:-}"
done
