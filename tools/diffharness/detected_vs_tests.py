"""Development aid (NOT part of any check): first-order mutants of the
otel_to_pv half that the rules of C08-C16 DETECT although the pinned test
suite still passes on them - the list to review for obligations that may not
be necessary conditions (or behaviour the tests do not pin).
usage: python detected_vs_tests.py"""
import sys
from concurrent.futures import ProcessPoolExecutor
sys.path.insert(0, "/verif")
from sa import automut  # noqa: E402
from sa.core import DEFAULT_ROOT  # noqa: E402
PROPS = ["C08", "C09", "C10", "C11", "C12", "C13", "C14", "C15", "C16"]


def det(j):
    fired = set()
    for prop in PROPS:
        r = automut._run((prop,) + tuple(j[1:]))
        if r["status"] == "detected":
            fired |= set(r["fired"])
    return fired


def main():
    jobs = {}
    for prop in PROPS:
        for j in automut.generate(prop, DEFAULT_ROOT):
            jobs.setdefault((j[2], j[3], j[4]), j)
    uniq = list(jobs.values())
    print("mutants", len(uniq), flush=True)
    with ProcessPoolExecutor(max_workers=14) as ex:
        fired = list(ex.map(det, uniq, chunksize=4))
    picked = [(j, f) for j, f in zip(uniq, fired) if f]
    print("detected", len(picked), flush=True)
    with ProcessPoolExecutor(max_workers=14) as ex:
        ok = list(ex.map(automut._survives_suite,
                         [(j[1], j[2], j[5]) for j, _ in picked]))
    n = 0
    for (j, f), o in zip(picked, ok):
        if o:
            n += 1
            print(f"SURVIVES-TESTS {j[3].split(':')[-1]}: {j[4][:90]} :: {' '.join(sorted(f))}", flush=True)
    print("detected and passing the pinned suite:", n)


if __name__ == "__main__":
    main()
