"""C04 -- updating a saved model equals learning from all data at once."""
from __future__ import annotations

import ast
from typing import Optional

from ..cfg import EXIT
from ..core import AnalysisError, FuncInfo, Report, call_name, dotted, unparse
from ..ctx import Ctx
from ..effects import (MUTATING_CONTAINER_CALLS, mutating_closure,
                       primary_mutators)
from .util import cguards, is_param, loopvar_over, actual, calls_in, enclosing, forwards, kw

EXPLANATION = (
    "Chunked learning equals one-shot learning at the level of the model if "
    "(O1) ingestion is a commutative idempotent accumulation into sets of "
    "value objects, (O2) save.load is the identity on that state, (O3) "
    "everything derived from the state and cached is invalidated whenever "
    "the state is written, (O4) the object saved is the object updated and "
    "later phases never write to it. Decided: R4.1 cache-coherence "
    "typestate -- slots (protected state, cache, stale flag) are read off "
    "the Event class; every write of the protected state anywhere in the "
    "repository is followed on every path to the function's exit by setting "
    "the flag on the same object (or sits in the constructor), and the "
    "getter recomputes iff the flag is set; R4.2 writer/reader agreement of "
    "the model file (field tables, outgoing<->event_sets, "
    "incoming<->in_event_sets, counts round-trip); R4.3 accumulation is a "
    "set union of value objects (hash and eq from one order-insensitive key "
    "that includes the counts); R4.4 the dictionary saved is the dictionary "
    "updated (parameter aliasing along the call chain, rebinding only under "
    "`is None`); R4.5 derived computations run on a deep copy; R4.6 wiring "
    "of -im/-om. The diagram is a function of the model; that this function "
    "is deterministic (C03) is not claimed."
    " R4.5 is a may-alias escape analysis (conditional expressions, views, shallow copies).")
TRUSTED = ["pydantic validates EventInputsFile on load"]
NOT_DECIDED = ["diagram-level equivalence (needs C03)"]
ASSUMPTIONS: list[str] = []


def check(rep: Report, ctx: Ctx) -> None:
    r41(rep, ctx)
    r42(rep, ctx)
    r42_models(rep, ctx)
    r42_loader(rep, ctx)
    r43(rep, ctx)
    r44(rep, ctx)
    r45(rep, ctx)
    r46(rep, ctx)
    r47(rep, ctx)
    r48(rep, ctx)
    r49(rep, ctx)
    r410(rep, ctx)


def r47(rep: Report, ctx: Ctx) -> None:
    """(shared with C01 R1.12)  Chunked learning equals one-shot learning only
    if whether a job is ingested never depends on what else the same run
    contains: every job graph of the stream is ingested."""
    rep.rule("R4.7", "every job of a chunk is ingested (with its dummy start "
             "link), independently of the other jobs of the run and of the "
             "loaded model", 5)
    from . import c01 as _c01
    sub = Report("C01", ctx.index)
    _c01.r112(sub, ctx)
    # ... nor on what the loaded model already contains: every job gets its
    # dummy start link, whether or not the model knows the dummy start
    _c01.r14(sub, ctx)
    for o in sub.obligations:
        o.rule = "R4.7"
        rep.obligations.append(o)
    rep.funcs_seen |= sub.funcs_seen


# --------------------------------------------------------------------------
def _slots(ctx: Ctx) -> tuple[str, str, str, FuncInfo]:
    """(state, cache, flag, getter) read off the class."""
    getter = ctx.func("Event.logic_gate_tree")
    ifs = [i for i in getter.node.body if isinstance(i, ast.If)]
    if len(ifs) != 1 or not isinstance(ifs[0].test, ast.Attribute):
        raise AnalysisError(f"{getter.qualname}: getter shape outside "
                            "vocabulary")
    flag = ifs[0].test.attr
    cache = state = None
    for st in ifs[0].body:
        if isinstance(st, ast.Assign) and isinstance(st.value, ast.Call) \
                and isinstance(st.targets[0], ast.Attribute):
            cache = st.targets[0].attr
            for a in st.value.args:
                if isinstance(a, ast.Attribute) and isinstance(
                        a.value, ast.Name) and a.value.id == "self":
                    state = a.attr
    if not (cache and state):
        raise AnalysisError(f"{getter.qualname}: cannot read the slots")
    return state, cache, flag, getter


def _discover_caches(ctx: Ctx) -> list[tuple[str, str, str, FuncInfo]]:
    """Every flag-guarded cache of the package: a method with a top-level
    ``if self.<flag>: self.<cache> = f(.. self.<state> ..); self.<flag> =
    False``.  A cache added later (say, a gate tree of the *incoming* sets)
    carries the same obligation as the pinned one."""
    out = []
    for fi in ctx.index.all_functions():
        ps = fi.params()
        if not ps or ps[0] != "self":
            continue
        for i in fi.node.body:
            if not (isinstance(i, ast.If) and isinstance(
                    i.test, ast.Attribute) and isinstance(
                    i.test.value, ast.Name) and i.test.value.id == "self"):
                continue
            flag = i.test.attr
            cache = state = None
            clears = False
            for st in i.body:
                if isinstance(st, ast.Assign) and isinstance(
                        st.targets[0], ast.Attribute) and isinstance(
                        st.value, ast.Call):
                    for a in ast.walk(st.value):
                        if isinstance(a, ast.Attribute) and isinstance(
                                a.value, ast.Name) and a.value.id == "self" \
                                and a.attr != flag:
                            cache, state = st.targets[0].attr, a.attr
                if isinstance(st, ast.Assign) and isinstance(
                        st.targets[0], ast.Attribute) and \
                        st.targets[0].attr == flag and isinstance(
                        st.value, ast.Constant) and st.value.value is False:
                    clears = True
            if cache and state and clears:
                out.append((state, cache, flag, fi))
    return out


def r41(rep: Report, ctx: Ctx) -> None:
    state, cache, flag, getter = _slots(ctx)
    rep.rule("R4.1", f"cache coherence: every write of <x>.{state} marks "
             f"<x>.{flag}", 4)
    rep.analysed["typestate_slots"] = {"state": state, "cache": cache,
                                       "flag": flag}
    _coherence(rep, ctx, state, cache, flag, getter, 3)
    others = [t for t in _discover_caches(ctx)
              if (t[0], t[1], t[2]) != (state, cache, flag)]
    rep.analysed["other_flag_guarded_caches"] = [
        {"state": t[0], "cache": t[1], "flag": t[2], "getter": t[3].qualname}
        for t in others]
    for st, ca, fl, g in others:
        _coherence(rep, ctx, st, ca, fl, g, 0)


def _coherence(rep: Report, ctx: Ctx, state: str, cache: str, flag: str,
               getter: FuncInfo, min_writes: int) -> None:
    # the getter recomputes iff the flag is set, then clears it
    i = [s for s in getter.node.body if isinstance(s, ast.If)][0]
    clears = [s for s in i.body if isinstance(s, ast.Assign)
              and isinstance(s.targets[0], ast.Attribute)
              and s.targets[0].attr == flag
              and isinstance(s.value, ast.Constant) and s.value.value is False]
    ret = [s for s in getter.node.body if isinstance(s, ast.Return)]
    rv = ctx.reach(getter).resolve(ret[0].value, at=ret[0]) if len(
        ret) == 1 and ret[0].value is not None else None
    ok = bool(clears) and not i.orelse and len(ret) == 1 and isinstance(
        rv, ast.Attribute) and rv.attr == cache
    rep.ob("R4.1", "the getter recomputes iff stale and returns the cache",
           ok, fi=getter, node=i,
           detail=f"if self.{flag}: self.{cache} = f(self.{state}); "
                  f"self.{flag} = False; return self.{cache}")
    init = ctx.func("Event.__init__")
    n_writes = 0
    for fi in ctx.index.all_functions():
        pm = ctx.index.parents(fi)
        cfg = None
        for n in ast.walk(fi.node):
            if not (isinstance(n, ast.Attribute) and n.attr == state):
                continue
            par = pm.get(n)
            write_stmt: Optional[ast.AST] = None
            how = ""
            if isinstance(n.ctx, ast.Store):
                write_stmt, how = par, "assignment"
            elif isinstance(par, ast.Attribute) and par.attr in \
                    MUTATING_CONTAINER_CALLS and isinstance(
                    pm.get(par), ast.Call):
                write_stmt, how = pm.get(par), f".{par.attr}()"
            elif isinstance(par, ast.AugAssign) and par.target is n:
                write_stmt, how = par, "augmented assignment"
            if write_stmt is None:
                continue
            n_writes += 1
            recv = unparse(n.value)
            if fi == init:
                rep.ob("R4.1", f"write in the constructor ({how})", True,
                       fi=fi, node=write_stmt,
                       detail="fresh object: empty state, cache None")
                continue
            cfg = cfg or ctx.cfg(fi)
            wn = cfg.container(write_stmt) if not cfg.has(write_stmt) \
                else cfg.node(write_stmt)
            flag_nodes = []
            for s in ast.walk(fi.node):
                if isinstance(s, ast.Assign) and isinstance(
                        s.targets[0], ast.Attribute) \
                        and s.targets[0].attr == flag \
                        and unparse(s.targets[0].value) == recv \
                        and isinstance(s.value, ast.Constant) \
                        and s.value.value is True and cfg.has(s):
                    flag_nodes.append(cfg.node(s))
            ok = wn is not None and bool(flag_nodes) and \
                cfg.every_path_passes(wn, EXIT, flag_nodes) and not (
                    set(flag_nodes) & {wn})
            rep.ob("R4.1", f"write of {recv}.{state} via {how}", ok, fi=fi,
                   node=write_stmt,
                   detail=(f"followed on every path by {recv}.{flag} = True"
                           if ok else
                           f"{recv}.{state} is written but {recv}.{flag} is "
                           "not set on every path to the exit: the cached "
                           "gate tree stays stale (None for a freshly loaded "
                           "event) and the event's logic is lost"))
    if n_writes < min_writes:
        raise AnalysisError(f"only {n_writes} writes of .{state} found")
    # aliases of the protected set must not be mutated
    for fi in ctx.index.all_functions():
        defs = ctx.defs(fi)
        for name, bs in defs.bindings.items():
            for b in bs:
                if b.kind == "assign" and isinstance(b.value, ast.Attribute) \
                        and b.value.attr == state:
                    muts = [c for c in ast.walk(fi.node)
                            if isinstance(c, ast.Call) and isinstance(
                                c.func, ast.Attribute) and c.func.attr in
                            MUTATING_CONTAINER_CALLS and isinstance(
                                c.func.value, ast.Name)
                            and c.func.value.id == name]
                    if muts:
                        rep.ob("R4.1", f"alias '{name}' of .{state} mutated",
                               False, fi=fi, node=muts[0],
                               detail="the protected set is mutated through "
                                      "an alias; the stale flag is bypassed")


# --------------------------------------------------------------------------
def _fields(ctx: Ctx, cls: str) -> list[str]:
    return [n for n, _ in ctx.index.cls(cls).fields()]


def r42(rep: Report, ctx: Ctx) -> None:
    rep.rule("R4.2", "model (de)serialisation is symmetric and total", 9)
    w = ctx.func("Event.to_event_input")
    ctor = [c for c in ast.walk(w.node) if isinstance(c, ast.Call)
            and call_name(c) == "EventInput"]
    if len(ctor) != 1:
        raise AnalysisError(f"{w.qualname}: expected one EventInput(...)")
    kws = {k.arg: k.value for k in ctor[0].keywords if k.arg}
    rep.ob("R4.2", "writer fills exactly the EventInput fields",
           set(kws) == set(_fields(ctx, "EventInput")), fi=w, node=ctor[0],
           detail=f"writer {sorted(kws)}; model "
                  f"{sorted(_fields(ctx, 'EventInput'))}")
    rep.ob("R4.2", "eventType <- event_type",
           unparse(kws.get("eventType")) == "self.event_type", fi=w,
           node=ctor[0], detail=f"eventType={unparse(kws.get('eventType'))}")
    for field_, attr in (("outgoingEventSets", "event_sets"),
                         ("incomingEventSets", "in_event_sets")):
        v = kws.get(field_)
        ok = isinstance(v, ast.ListComp) and unparse(
            v.generators[0].iter) == f"self.{attr}" and not \
            v.generators[0].ifs and isinstance(v.elt, ast.Call) and \
            call_name(v.elt) == "to_event_set_count_input_list"
        rep.ob("R4.2", f"writer: {field_} <- every set of {attr}", ok, fi=w,
               node=ctor[0], detail=f"{field_}={unparse(v)[:90]}")
    ws = ctx.func("EventSet.to_event_set_count_input_list")
    c2 = [c for c in ast.walk(ws.node) if isinstance(c, ast.Call)
          and call_name(c) == "EventSetCountInput"]
    ok = False
    if len(c2) == 1:
        comp = enclosing(ws.node, c2[0], (ast.ListComp,))
        k2 = {k.arg: unparse(k.value) for k in c2[0].keywords}
        if comp:
            g = comp[0].generators[0]
            names = [e.id for e in g.target.elts] if isinstance(
                g.target, ast.Tuple) else []
            ok = unparse(g.iter) == "self.items()" and not g.ifs \
                and len(names) == 2 and k2 == {"eventType": names[0],
                                               "count": names[1]} \
                and set(k2) == set(_fields(ctx, "EventSetCountInput"))
    rep.ob("R4.2", "writer: (eventType, count) for every item of the set",
           ok, fi=ws, node=c2[0] if c2 else ws.node,
           detail="[EventSetCountInput(eventType=e, count=c) for e, c in "
                  "self.items()]")
    r = ctx.func("event_inputs_to_events")
    # reader: which EventInput field feeds which Event state
    pairs = {}
    for loop in [l for l in ast.walk(r.node) if isinstance(l, ast.For)]:
        it = unparse(loop.iter)
        for fld in ("outgoingEventSets", "incomingEventSets"):
            if it.endswith("." + fld):
                sinks = set()
                for c in ast.walk(loop):
                    if isinstance(c, ast.Call):
                        nm = call_name(c)
                        if nm in ("update_event_sets",):
                            sinks.add("event_sets")
                        elif nm in ("update_in_event_sets",):
                            sinks.add("in_event_sets")
                        elif nm in MUTATING_CONTAINER_CALLS and isinstance(
                                c.func.value, ast.Attribute) and \
                                c.func.value.attr in ("event_sets",
                                                      "in_event_sets"):
                            sinks.add(c.func.value.attr)
                pairs[fld] = (loop, sinks)
    for fld, attr in (("outgoingEventSets", "event_sets"),
                      ("incomingEventSets", "in_event_sets")):
        loop, sinks = pairs.get(fld, (None, set()))
        rep.ob("R4.2", f"reader: {fld} -> {attr}", sinks == {attr}, fi=r,
               node=loop if loop is not None else r.node,
               detail=f"{fld} feeds {sorted(sinks) or 'nothing'}"
                      + ("" if sinks == {attr} else " -- successor and "
                         "predecessor sets are crossed or dropped"))
        if loop is not None:
            comps = [c for c in ast.walk(loop) if isinstance(c, ast.ListComp)]
            if not comps:   # the expansion may live in a helper
                for site in ctx.cg.sites_in(r):
                    if any(x is site.node for x in ast.walk(loop)):
                        for callee in site.callees:
                            comps += [c for c in ast.walk(callee.node)
                                      if isinstance(c, ast.ListComp)
                                      and len(c.generators) == 2]
            ok = False
            if comps:
                c = comps[0]
                ok = len(c.generators) == 2 and unparse(c.elt).endswith(
                    ".eventType") and "range(" in unparse(
                    c.generators[1].iter) and unparse(
                    c.generators[1].iter).endswith(".count)") \
                    and not c.generators[0].ifs and not c.generators[1].ifs
            rep.ob("R4.2", f"reader: {fld} restores each type with its "
                   "multiplicity", ok, fi=r, node=comps[0] if comps else loop,
                   detail="[s.eventType for s in set for _ in range(s.count)]")
    rret = [x for x in ast.walk(r.node) if isinstance(x, ast.Return)
            and isinstance(x.value, ast.Name)]
    rname = rret[-1].value.id if rret else "events"  # the returned dict
    store = [s for s in ast.walk(r.node) if isinstance(s, ast.Assign)
             and isinstance(s.targets[0], ast.Subscript)
             and unparse(s.targets[0].value) == rname]
    ok = len(store) == 1 and unparse(store[0].targets[0].slice).endswith(
        ".eventType")
    ev = [c for c in ast.walk(r.node) if isinstance(c, ast.Call)
          and call_name(c) == "Event"]
    ok = ok and len(ev) == 1 and unparse(ev[0].args[0]).endswith(".eventType")
    rep.ob("R4.2", "reader: events keyed and typed by eventType", ok, fi=r,
           node=store[0] if store else r.node,
           detail="event = Event(i.eventType); events[i.eventType] = event")
    sv, ld = ctx.func("save_events_to_file"), ctx.func("load_events_from_file")
    mk = [c for c in ast.walk(sv.node) if isinstance(c, ast.Call)
          and call_name(c) == "EventInputsFile"]
    val = [c for c in ast.walk(ld.node) if isinstance(c, ast.Call)
           and call_name(c) == "model_validate"
           and "EventInputsFile" in unparse(c.func)]
    k = {x.arg: unparse(ctx.reach(sv).resolve_deep(x.value, at=mk[0]))
         for x in mk[0].keywords} if mk else {}
    ok = bool(mk) and bool(val) and set(k) == set(
        _fields(ctx, "EventInputsFile")) and k.get("job_name") == "job_name" \
        and k.get("events") == "events_to_event_inputs(events)"
    rep.ob("R4.2", "save dumps the model load validates", ok, fi=sv,
           node=mk[0] if mk else sv.node,
           detail=f"EventInputsFile({k}) / EventInputsFile.model_validate")
    ret = [x for x in ast.walk(ld.node) if isinstance(x, ast.Return)]
    rv2 = ctx.reach(ld).resolve(ret[0].value, at=ret[0]) if len(ret) == 1 \
        and ret[0].value is not None else None
    ok = isinstance(rv2, ast.Tuple) and len(rv2.elts) == 2 and unparse(
        rv2.elts[0]).endswith(".job_name") and "events" in unparse(
        rv2.elts[1]) and call_name(rv2.elts[1]) == "event_inputs_to_events"
    rep.ob("R4.2", "load returns (job_name, events) of the file", ok, fi=ld,
           node=ret[0] if ret else ld.node,
           detail=unparse(ret[0].value)[:100] if ret else "<missing>")
    e2i = ctx.func("events_to_event_inputs")
    # (normal form: an accumulate loop is a list comprehension)
    loops = [l for l in ast.walk(e2i.node) if isinstance(l, ast.For)]
    comps = [c for c in ast.walk(e2i.node) if isinstance(c, ast.ListComp)]
    ok = False
    if len(loops) == 1 and not comps:
        ok = unparse(loops[0].iter) == "events.values()" \
            and not enclosing(loops[0], loops[0].body[0], (ast.If,)) and any(
                call_name(c) == "to_event_input" for c in ast.walk(loops[0])
                if isinstance(c, ast.Call))
    elif len(comps) == 1 and not loops:
        g = comps[0].generators
        ok = len(g) == 1 and unparse(g[0].iter) == "events.values()" \
            and not g[0].ifs and isinstance(comps[0].elt, ast.Call) \
            and call_name(comps[0].elt) == "to_event_input"
        loops = comps   # for the report position
    rep.ob("R4.2", "every event of the model is written", ok, fi=e2i,
           node=loops[0] if loops else e2i.node,
           detail="for event in events.values(): "
                  "inputs.append(event.to_event_input())")


# --------------------------------------------------------------------------
def r42_models(rep: Report, ctx: Ctx) -> None:
    """The model file is written and read through pydantic classes.  The
    in-memory model keeps event types verbatim; a class that rewrites strings
    (strip, case, length) stores and reloads them under another name, and
    the next chunk's jobs then create a second event beside the loaded one."""
    from .util import model_rewrites
    for cls in ("EventSetCountInput", "EventInput", "EventInputsFile"):
        probs = model_rewrites(ctx, cls)
        c = ctx.index.cls(cls)
        rep.ob("R4.2", f"{cls} passes event types and job names through "
               "unchanged", not probs,
               detail="; ".join(p[1] for p in probs) + (
                   " -- names that differ only by what is rewritten are "
                   "saved / reloaded under another name than the one "
                   "ingestion uses" if probs else
                   "no transforming model_config option, validator or "
                   "constrained string type"))
        rep.obligations[-1].func = c.qualname
        rep.obligations[-1].file = c.module.relpath
        rep.obligations[-1].line = probs[0][0].lineno if probs \
            else c.node.lineno


def r42_loader(rep: Report, ctx: Ctx) -> None:
    """The loader is total: an entry of the model file that is skipped is an
    event that silently loses everything the earlier chunks knew about it."""
    from .effspec import check_table
    from .walkspec import LOADER_TABLE
    check_table(rep, ctx, "R4.2", LOADER_TABLE, list(LOADER_TABLE))


def r43(rep: Report, ctx: Ctx) -> None:
    rep.rule("R4.3", "accumulation is a set union of value objects", 5)
    init = ctx.func("Event.__init__")
    for attr in ("event_sets", "in_event_sets"):
        st = [s for s in ast.walk(init.node) if isinstance(s, (ast.Assign,
                                                               ast.AnnAssign))
              and unparse(getattr(s, "target", None) or s.targets[0])
              == f"self.{attr}"]
        ok = len(st) == 1 and unparse(st[0].value) == "set()"
        rep.ob("R4.3", f"{attr} starts as an empty set", ok, fi=init,
               node=st[0] if st else init.node,
               detail=unparse(st[0])[:60] if st else "<missing>")
    for spec, attr in (("Event.update_event_sets", "event_sets"),
                       ("Event.update_in_event_sets", "in_event_sets")):
        f = ctx.func(spec)
        adds = [c for c in ast.walk(f.node) if isinstance(c, ast.Call)
                and call_name(c) == "add"
                and unparse(c.func.value) == f"self.{attr}"]
        a0 = ctx.reach(f).resolve(adds[0].args[0], at=adds[0]) if len(
            adds) == 1 else None
        ok = len(adds) == 1 and isinstance(a0, ast.Call) and \
            call_name(a0) == "EventSet" and unparse(ctx.reach(f).resolve(
                a0.args[0], at=adds[0])) == f.params()[1] and not enclosing(
                f.node, adds[0], (ast.If, ast.For))
        rep.ob("R4.3", f"{f.name}: self.{attr}.add(EventSet(events))", ok,
               fi=f, node=adds[0] if adds else f.node,
               detail="idempotent, order-free accumulation")
    key = ctx.func("EventSet.__key")
    h, e = ctx.func("EventSet.__hash__"), ctx.func("EventSet.__eq__")
    ok = False
    for comp in [n for n in ast.walk(key.node) if isinstance(
            n, (ast.GeneratorExp, ast.ListComp))]:
        g = comp.generators[0]
        if isinstance(g.iter, ast.Call) and dotted(g.iter.func) == "sorted" \
                and isinstance(g.target, ast.Name) and isinstance(
                    comp.elt, ast.Tuple):
            kv = g.target.id
            src = unparse(g.iter.args[0]) if g.iter.args else ""
            elts = [unparse(x) for x in comp.elt.elts]
            ok = src in ("self", "self.keys()", "self.items()") and (
                elts == [kv, f"self[{kv}]"] or src == "self.items()")
    rep.ob("R4.3", "the value key is order-insensitive and includes counts",
           ok, fi=key, node=key.node,
           detail="tuple((k, self[k]) for k in sorted(self))")
    uses_h = any(isinstance(c, ast.Call) and call_name(c) == "__key"
                 for c in ast.walk(h.node))
    n_e = sum(1 for c in ast.walk(e.node) if isinstance(c, ast.Call)
              and call_name(c) == "__key")
    rep.ob("R4.3", "__hash__ and __eq__ are functions of that one key",
           uses_h and n_e == 2, fi=h, node=h.node,
           detail=f"hash(self.__key()); self.__key() == other.__key() "
                  f"(key calls in __eq__: {n_e})")


# --------------------------------------------------------------------------
def r44(rep: Report, ctx: Ctx) -> None:
    rep.rule("R4.4", "the dictionary saved is the dictionary updated", 7)
    top = ctx.func("pv_streams_to_puml_files")
    chain = [
        (top, ctx.func("pv_to_puml_file"), "events", "events"),
        (ctx.func("pv_to_puml_file"), ctx.func("pv_to_puml_string"),
         "events", "events"),
        (ctx.func("pv_to_puml_string"),
         ctx.func("update_and_create_events_from_clustered_pvevents"),
         "events", "events"),
        (ctx.func("update_and_create_events_from_clustered_pvevents"),
         ctx.func("update_and_create_events_from_graph_solutions"),
         "events", "events"),
        (ctx.func("update_and_create_events_from_graph_solutions"),
         ctx.func("update_and_create_events_from_graph_solution"),
         "events", "events"),
    ]
    top_model: Optional[str] = None
    for caller, callee, param, want in chain:
        calls = calls_in(ctx, caller, callee)
        a = actual(calls[0], callee, param) if calls else None
        if caller is top:
            # a local of the top function: identified by what is passed down
            ok = isinstance(a, ast.Name)
            top_model = a.id if ok else None
        else:
            ok = isinstance(a, ast.Name) and a.id == want
        rep.ob("R4.4", f"{caller.short} -> {callee.short}({param})", ok,
               fi=caller, node=calls[0] if calls else caller.node,
               detail=f"{param}={unparse(a)}")
        # rebinding of the carried name in the caller only under `is None`
        defs = ctx.defs(caller)
        for b in defs.of(want):
            if b.kind != "assign" or caller is top:
                continue
            if caller.name == "pv_to_puml_string" and isinstance(
                    b.value, ast.Call) and call_name(b.value) == \
                    "update_and_create_events_from_clustered_pvevents":
                continue   # the ingestion result (same object, see below)
            g = enclosing(caller.node, b.stmt, (ast.If,))
            t = unparse(g[-1].test) if g else "<unconditional>"
            ok = t == f"{want} is None"
            rep.ob("R4.4", f"{caller.short}: '{want}' rebound only when None",
                   ok, fi=caller, node=b.stmt,
                   detail=f"'{unparse(b.stmt)}' under '{t}'"
                          + ("" if ok else " -- a truthiness test detaches "
                             "an empty dict: -om would save an empty model "
                             "on a first run"))
    # the innermost function inserts into the parameter
    low = ctx.func("update_and_create_events_from_graph_solution")
    ins = [s for s in ast.walk(low.node) if isinstance(s, ast.Assign)
           and isinstance(s.targets[0], ast.Subscript)
           and unparse(s.targets[0].value) == "events"]
    rep.ob("R4.4", "new events are inserted into the passed dictionary",
           bool(ins) and ctx.defs(low).only_param("events"), fi=low,
           node=ins[0] if ins else low.node,
           detail="events[event_type] = Event(event_type)")
    mid = ctx.func("update_and_create_events_from_graph_solutions")
    ret = [r for r in ast.walk(mid.node) if isinstance(r, ast.Return)]
    rep.ob("R4.4", "the ingestion returns the same dictionary",
           len(ret) == 1 and unparse(ret[0].value) == "events", fi=mid,
           node=ret[0] if ret else mid.node, detail="return events")
    # top: the dict passed down is the dict saved
    defs = ctx.defs(top)
    saver = ctx.func("save_events_to_file")
    sv = calls_in(ctx, top, saver)
    a = actual(sv[0], saver, "events") if sv else None
    ok = isinstance(a, ast.Name) and a.id == top_model
    rep.ob("R4.4", "the saved dictionary is the one handed to the learner",
           ok, fi=top, node=sv[0] if sv else top.node,
           detail=f"save_events_to_file(..., {unparse(a)}, ...); the learner "
                  f"received '{top_model}'")
    binds = [b for b in defs.of(top_model or "") if b.kind == "assign"]
    wf = None      # the workflow name: element 0 of the loop over the streams
    for b in binds:
        v = b.value
        if isinstance(v, ast.Subscript) and isinstance(v.value, ast.Name) \
                and v.value.id == "events_to_jobs_map" and loopvar_over(
                    defs, v.slice, is_param("pv_streams"), index=0):
            wf = v.slice.id  # type: ignore[attr-defined]
    ok = len(binds) == 2 and any(isinstance(b.value, ast.Dict)
                                 and not b.value.keys for b in binds) \
        and wf is not None
    # "fresh" means created in every iteration of the loop over the
    # workflows: a dict created once before the loop is handed on from one
    # workflow to the next and collects the events of all of them
    if ok:
        fresh = [b for b in binds if isinstance(b.value, ast.Dict)][0]
        loops = [l for l in ast.walk(top.node) if isinstance(l, ast.For)
                 and any(x is sv[0] for x in ast.walk(l))] if sv else []
        ok = bool(loops) and any(x is fresh.stmt
                                 for x in ast.walk(loops[-1]))
    rep.ob("R4.4", "per workflow: the loaded model or a fresh dict", ok,
           fi=top, node=binds[0].stmt if binds else top.node,
           detail="; ".join(unparse(b.stmt)[:50] for b in binds))
    if sv:
        gs = cguards(ctx, top, sv[0])
        ok = gs == [("truth", "save_models", "1")]
        nm = actual(sv[0], saver, "job_name")
        rep.ob("R4.4", "-om saves under the workflow's name", ok and
               isinstance(nm, ast.Name) and nm.id == wf, fi=top, node=sv[0],
               detail=f"if save_models: save_events_to_file({unparse(nm)}, "
                      f"...); models are looked up under '{wf}'")


# --------------------------------------------------------------------------
def r45(rep: Report, ctx: Ctx) -> None:
    rep.rule("R4.5", "derived computations run on a copy", 2)
    entry = ctx.func("pv_to_puml_string")
    state_attrs = {"event_sets", "in_event_sets", "_logic_gate_tree",
                   "logic_gate_tree"}
    prim = primary_mutators(ctx.index, state_attrs)
    mut = mutating_closure(ctx.cg, prim)
    rep.analysed["mutating_functions"] = len(mut)
    ingest = ctx.func("update_and_create_events_from_clustered_pvevents")
    calls = calls_in(ctx, entry, ingest)
    if len(calls) != 1:
        raise AnalysisError("pv_to_puml_string: ingestion call not found")
    ing_stmt = enclosing(entry.node, calls[0], (ast.Assign,))
    model = ing_stmt[-1].targets[0].id if ing_stmt and isinstance(
        ing_stmt[-1].targets[0], ast.Name) else None
    if model is None:
        raise AnalysisError("pv_to_puml_string: ingestion result not bound")
    defs = ctx.defs(entry)
    SHALLOW = {"list", "dict", "tuple", "set", "sorted", "iter", "reversed",
               "filter", "map", "copy", "frozenset", "enumerate", "zip"}

    def is_deepcopy(c: ast.Call) -> bool:
        return (dotted(c.func) or "").split(".")[-1] == "deepcopy"

    aliases = {model}

    def may_alias(e: ast.AST) -> bool:
        """May ``e`` evaluate to the model object, a view of it, or a
        shallow copy (the Event objects themselves are shared)?"""
        if isinstance(e, ast.Name):
            return e.id in aliases
        if isinstance(e, ast.IfExp):
            return may_alias(e.body) or may_alias(e.orelse)
        if isinstance(e, ast.BoolOp):
            return any(may_alias(v) for v in e.values)
        if isinstance(e, (ast.Attribute, ast.Subscript, ast.Starred)):
            return may_alias(e.value)
        if isinstance(e, ast.NamedExpr):
            return may_alias(e.value)
        if isinstance(e, ast.Call):
            if is_deepcopy(e):
                return False
            if isinstance(e.func, ast.Attribute) and may_alias(e.func.value):
                return True        # .values() / .items() / .copy() / .get()
            if (dotted(e.func) or "").split(".")[-1] in SHALLOW:
                return any(may_alias(x) for x in e.args)
            return False
        if isinstance(e, (ast.ListComp, ast.SetComp, ast.GeneratorExp)):
            return any(may_alias(g.iter) for g in e.generators)
        if isinstance(e, ast.DictComp):
            return any(may_alias(g.iter) for g in e.generators)
        if isinstance(e, (ast.Tuple, ast.List, ast.Set)):
            return any(may_alias(x) for x in e.elts)
        return False

    changed = True
    while changed:
        changed = False
        for name, bs in defs.bindings.items():
            if name in aliases:
                continue
            for b in bs:
                if b.value is not None and b.kind in (
                        "assign", "for", "comp", "with") and getattr(
                        b.stmt, "lineno", 0) > ing_stmt[-1].lineno \
                        and may_alias(b.value):
                    aliases.add(name)
                    changed = True
    rep.analysed["model_aliases"] = sorted(aliases)
    bad = []
    copies = 0
    for call in ast.walk(entry.node):
        if not isinstance(call, ast.Call) or getattr(call, "lineno", 0) <= \
                ing_stmt[-1].lineno:
            continue
        actuals = list(call.args) + [k.value for k in call.keywords]
        if not any(may_alias(x) for x in actuals):
            continue
        if is_deepcopy(call):
            copies += 1
            continue
        callees = [c.qualname for st in ctx.cg.sites_in(entry)
                   if st.node is call for c in st.callees]
        if not callees and (dotted(call.func) or "").split(".")[-1] in \
                SHALLOW | {"len", "isinstance", "print", "bool", "str",
                           "repr", "id", "any", "all"}:
            continue
        if any(q in mut for q in callees) or not callees:
            arg = next(x for x in actuals if may_alias(x))
            bad.append((arg, call))
    rep.ob("R4.5", "the learned model is deep-copied before the derived "
           "phases", copies >= 1, fi=entry, node=ing_stmt[-1],
           detail=f"{copies} deepcopy({model}) after the ingestion statement")
    rep.ob("R4.5", "no mutating phase receives the model itself", not bad,
           fi=entry, node=bad[0][1] if bad else ing_stmt[-1],
           detail=(f"'{unparse(bad[0][1])[:70]}' receives '{model}' (or a "
                   "view of it) and can reach a function that writes Event "
                   "state or graph structure: LOOP_n / dummy events and "
                   "pruned sets would leak into the saved model"
                   if bad else "every later use of the model is the operand "
                   "of deepcopy"))
    # the graph is built from the copy
    cg_call = [c for c in ast.walk(entry.node) if isinstance(c, ast.Call)
               and call_name(c) == "create_graph_from_events"]
    ok = False
    if cg_call:
        src = defs.resolve_deep(cg_call[0].args[0])
        ok = any(isinstance(c, ast.Call) and (dotted(c.func) or "").endswith(
            "deepcopy") for c in ast.walk(src)) and not may_alias(
                cg_call[0].args[0])
    rep.ob("R4.5", "the event graph is built from the copy", ok, fi=entry,
           node=cg_call[0] if cg_call else entry.node,
           detail="create_graph_from_events(deepcopy(events).values())")


def r46(rep: Report, ctx: Ctx) -> None:
    rep.rule("R4.6", "wiring of -im / -om", 3)
    gen = ctx.func("generate_component_options")
    go = [c for c in ast.walk(gen.node) if isinstance(c, ast.Call)
          and call_name(c) == "GlobalOptions"]
    k = {x.arg: unparse(x.value) for x in go[0].keywords} if go else {}
    ok = k.get("input_puml_models", "").endswith(".input_puml_models") and \
        k.get("output_puml_models", "").endswith(".output_puml_models")
    rep.ob("R4.6", "CLI: -im/-om reach GlobalOptions uncrossed", ok, fi=gen,
           node=go[0] if go else gen.node, detail=str(k))
    mh = ctx.func("main_handler")
    c = [x for x in ast.walk(mh.node) if isinstance(x, ast.Call)
         and call_name(x) == "otel_to_puml"]
    disp_fi = ctx.func("otel_to_puml")
    ga_ = actual(c[0], disp_fi, "global_options") if len(c) == 1 else None
    ga_ = ctx.reach(mh).resolve(ga_, at=c[0]) if ga_ is not None else None
    ok = isinstance(ga_, ast.Attribute) and ga_.attr == "global_options" \
        and isinstance(ctx.reach(mh).resolve(ga_.value, at=c[0]), ast.Call) \
        and call_name(ctx.reach(mh).resolve(ga_.value, at=c[0])) == gen.name
    rep.ob("R4.6", "CLI: global options are passed to the dispatcher", ok,
           fi=mh, node=c[0] if c else mh.node,
           detail=unparse(c[0])[:120] if c else "<missing>")
    ga = ctx.index.cls("GlobalArgs")
    flds = dict(ga.fields())
    ok = "input_puml_models" in flds and "output_puml_models" in flds
    rep.ob("R4.6", "GlobalArgs declares both options", ok,
           detail=f"fields {sorted(flds)}")
    rep.obligations[-1].func = ga.qualname
    rep.obligations[-1].file = ga.module.relpath


def r48(rep: Report, ctx: Ctx) -> None:
    """Chunked learning equals one-shot learning because evidence is a SET
    of multiset observations: the observation must keep its counts through
    construction, listing (the model file and every mirroring step list it)
    and removal."""
    from .effspec import check_table
    from .walkspec import MODEL_TABLE
    rep.rule("R4.8", "an observation keeps its counts: EventSet(l).to_list() "
             "is l up to order; accumulation and removal work on whole "
             "observations", 8)
    check_table(rep, ctx, "R4.8", MODEL_TABLE, list(MODEL_TABLE))


def r49(rep: Report, ctx: Ctx) -> None:
    """The model is a dictionary of mutable Event objects that learning
    updates IN PLACE.  A memoised producer hands the same objects to every
    caller: the second update of "the file's model" starts from what the
    first update left behind (chunk 1 + 2 + 3 instead of 1 + 3)."""
    rep.rule("R4.9", "no memoised function returns model objects (they are "
             "updated in place by learning)", 0)
    MUTABLE = ("dict", "list", "set", "Event", "EventSet", "DiGraph",
               "ProcessTree", "Node", "PUMLGraph")
    n = 0
    for fi in ctx.index.all_functions():
        memo = [d for d in fi.decorators if "cache" in d.lower()]
        if not memo:
            continue
        n += 1
        ann = unparse(fi.node.returns) if fi.node.returns is not None else ""
        shared = [t for t in MUTABLE if t in ann] or (
            [] if ann else ["<unannotated>"])
        rep.ob("R4.9", f"{fi.name} (@{memo[0]}) returns immutable values "
               "only", not shared, fi=fi, node=fi.node,
               detail=f"return type '{ann}'" + (
                   f": {shared} objects are shared between all callers with "
                   "the same arguments and mutated by the first" if shared
                   else ""))
    rep.analysed["memoised_functions"] = n


def r410(rep: Report, ctx: Ctx) -> None:
    """Updating a saved model equals learning from all data at once only if
    the model on disk IS the model of the last run: a save that fails must
    fail the run.  A handler that logs and carries on leaves the previous
    file in place - loadable, stale - and the next run silently forgets a
    whole chunk (seed C04-z)."""
    from .util import swallowed_io, swallowing_handlers
    rep.rule("R4.10", "a model file that cannot be written aborts the run "
             "(no handler completes normally around the write)", 2)
    saver = ctx.func("save_events_to_file")
    entry = ctx.func("pv_streams_to_puml_files")
    bad = swallowed_io(ctx, saver)
    rep.ob("R4.10", "the writer lets an I/O error through", not bad,
           fi=bad[0][0] if bad else saver,
           node=bad[0][1] if bad else saver.node,
           detail=(f"handler '{unparse(bad[0][1])[:60]}' in {bad[0][0].short} "
                   "completes normally after a failed write: the run reports "
                   "success and the old model file stays on disk" if bad else
                   "no try around open / json.dump in the writer's closure"))
    bad2, n_try = swallowing_handlers(ctx, entry, {saver.qualname})
    rep.ob("R4.10", "no caller swallows a failed save", not bad2,
           fi=bad2[0][0] if bad2 else entry,
           node=bad2[0][1] if bad2 else entry.node,
           detail=(f"handler '{unparse(bad2[0][1])[:60]}' in "
                   f"{bad2[0][0].short}" if bad2 else
                   f"{n_try} try statement(s) in the closure of "
                   f"{entry.short}, none around the save"))
