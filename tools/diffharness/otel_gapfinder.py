"""Development aid (NOT part of any check): where are the rules of C08-C16
blind?  First-order mutants (sa.automut operators) of EVERY function of the
otel_to_pv half (not only the functions a rule consults), classified by
  * detected by some rule of C08 .. C16, or not,
  * changes the observable output of the scenarios of otel_run_tree.py, or not,
  * (for the undetected ones that change output) still passes the pinned suite.
"undetected + output changes + suite green" is a coverage gap of the rules.
usage: python otel_gapfinder.py [N_SEEDS]
env:   MODS=substr,substr restrict modules; FUNC=a,b restrict functions"""
import sys, os, json, shutil, subprocess, tempfile, ast, copy
from pathlib import Path
from collections import defaultdict
from concurrent.futures import ProcessPoolExecutor, ThreadPoolExecutor, as_completed
HERE = os.path.dirname(os.path.abspath(__file__))
sys.path.insert(0, "/verif")
from sa import automut  # noqa: E402
from sa.core import DEFAULT_ROOT  # noqa: E402
N = int(sys.argv[1]) if len(sys.argv) > 1 and sys.argv[1].isdigit() else 40
PROPS = ("C08", "C09", "C10", "C11", "C12", "C13", "C14", "C15", "C16")
HALF = ("tel2puml/otel_to_pv/", "tel2puml/otel_to_puml.py",
        "tel2puml/pv_to_tel.py", "tel2puml/__main__.py",
        "tel2puml/pv_to_puml/data_ingestion.py", "tel2puml/utils.py",
        "tel2puml/tel2puml_types.py")
WORKERS = int(os.environ.get("WORKERS", "10"))


def run(tree):
    env = dict(os.environ, PYTHONHASHSEED="0", PYTHONPATH=f"{tree}",
               OMP_NUM_THREADS="1", OPENBLAS_NUM_THREADS="1",
               MKL_NUM_THREADS="1")
    p = subprocess.run(["/venv/bin/python", f"{HERE}/otel_run_tree.py", "0",
                        str(N)], env=env, capture_output=True, text=True,
                       timeout=1800)
    out = {}
    for line in p.stdout.splitlines():
        if line.startswith("{"):
            d = json.loads(line)
            out[(d.get("kind"), d["seed"])] = (d["st"], d["h"])
    return out


def generate_all():
    from sa.main import run_rules
    rep, ctx = run_rules("C10", DEFAULT_ROOT)
    only = os.environ.get("FUNC")
    mods = os.environ.get("MODS")
    jobs = []
    for q, fi in sorted(ctx.index.functions.items()):
        rel = fi.module.relpath
        if not any(rel.startswith(h) for h in HALF):
            continue
        if only and fi.node.name not in only.split(","):
            continue
        if mods and not any(m in rel for m in mods.split(",")):
            continue
        tree = ast.parse(fi.module.src)
        target = None
        for n in ast.walk(tree):
            if isinstance(n, ast.FunctionDef) and n.name == fi.node.name \
                    and n.lineno == fi.node.lineno:
                target = n
        if target is None:
            continue
        for desc, f2 in automut.mutants_of(target):
            t2 = copy.deepcopy(tree)
            for n in ast.walk(t2):
                blk = getattr(n, "body", None)
                if isinstance(blk, list):
                    for k, st in enumerate(blk):
                        if isinstance(st, ast.FunctionDef) and st.name == \
                                target.name and st.lineno == target.lineno:
                            blk[k] = f2
            try:
                src = ast.unparse(ast.fix_missing_locations(t2)) + "\n"
                ast.parse(src)
            except Exception:
                continue
            jobs.append(("ALLP", str(DEFAULT_ROOT), rel,
                         q.split(":")[-1], desc, src))
    return jobs


def _det(j):
    fired, errs = set(), []
    for prop in PROPS:
        r = automut._run((prop,) + tuple(j[1:]))
        if r["status"] == "detected":
            fired |= set(r["fired"])
        elif r["status"] == "analysis-error":
            errs.append(prop)
    return j, sorted(fired), errs


def main():
    jobs = generate_all()
    print("mutants", len(jobs), "functions", len({j[3] for j in jobs}), flush=True)
    cache = os.environ.get("DET_CACHE")
    if cache and os.path.exists(cache):
        c = {tuple(k): (f, e) for k, f, e in json.load(open(cache))}
        dets = [(j,) + tuple(c[(j[2], j[3], j[4])]) for j in jobs
                if (j[2], j[3], j[4]) in c]
    else:
        with ProcessPoolExecutor(max_workers=WORKERS) as ex:
            dets = list(ex.map(_det, jobs, chunksize=4))
        if cache:
            json.dump([((j[2], j[3], j[4]), f, e) for j, f, e in dets],
                      open(cache, "w"))
    if os.environ.get("DET_ONLY"):
        print("detected", sum(1 for d in dets if d[1]))
        return
    print("detected", sum(1 for d in dets if d[1]), "analysis-error",
          sum(1 for d in dets if not d[1] and d[2]), flush=True)
    base = run("/repo")
    print("baseline scenarios", len(base), "not ok:",
          sorted(k for k, v in base.items() if v[0] != "ok"), flush=True)

    def job(x):
        j, fired, errs = x
        if fired and os.environ.get("SKIP_DET"):
            return j, fired, errs, -1, len(base), []
        d = tempfile.mkdtemp(prefix="ogapf_")
        try:
            shutil.copytree("/repo/tel2puml", d + "/tel2puml",
                            ignore=shutil.ignore_patterns("__pycache__"))
            Path(d, j[2]).write_text(j[5])
            try:
                r = run(d)
            except Exception:
                r = {}
            diff = sum(base.get(s) != r.get(s) for s in base)
            kinds = sorted({s[0] for s in base if base.get(s) != r.get(s)})
            return j, fired, errs, diff, len(base), kinds
        finally:
            shutil.rmtree(d, ignore_errors=True)
    per = defaultdict(lambda: dict(n=0, det=0, det_eq=0, gap=0, eq=0, err=0))
    gaps = []
    with ThreadPoolExecutor(max_workers=WORKERS) as ex:
        for f in as_completed([ex.submit(job, x) for x in dets]):
            j, fired, errs, diff, tot, kinds = f.result()
            p = per[(j[2], j[3])]
            p["n"] += 1
            if fired:
                p["det"] += 1
                p["det_eq"] += diff == 0
            elif errs:
                p["err"] += 1
            elif diff:
                p["gap"] += 1
                gaps.append((j, diff, tot, kinds))
            else:
                p["eq"] += 1
            tag = "DET" if fired else ("ERR" if errs else ("GAP" if diff else "EQV"))
            print(f"{tag} {diff:3d}/{tot} {j[3]}: {j[4][:90]} :: "
                  f"{' '.join(fired) or ' '.join(errs) or ','.join(kinds)}", flush=True)
    print("\n== undetected mutants that change the output: does the pinned suite still pass?", flush=True)
    with ProcessPoolExecutor(max_workers=WORKERS) as ex:
        ok = list(ex.map(automut._survives_suite,
                         [(g[0][1], g[0][2], g[0][5]) for g in gaps]))
    for (j, diff, tot, kinds), o in zip(gaps, ok):
        print(f"{'BLIND-SUITE-GREEN' if o else 'blind-suite-red  '} {diff:3d}/{tot} "
              f"{j[2].split('/')[-1]}::{j[3]}: {j[4][:100]} :: {','.join(kinds)}", flush=True)
    print("\n== per function: GAP (undetected, output changes) / detected (of which no output change) / analysis-error / undetected, no change")
    for (mod, fn), p in sorted(per.items(), key=lambda kv: -kv[1]["gap"]):
        print(f"{p['gap']:3d} gap  {p['det']:3d} det ({p['det_eq']} eq)  {p['err']:2d} err  {p['eq']:3d} eqv  of {p['n']:3d}  {mod}::{fn}")
    tot = {k: sum(p[k] for p in per.values()) for k in ("n", "det", "det_eq", "gap", "eq", "err")}
    print("TOTAL", tot, "blind and suite green:", sum(ok))


if __name__ == "__main__":
    main()
