#!/usr/bin/env bash
# tools/try_seed.sh <patch.diff> [PROP ...]
# Applies a seeded change to a scratch copy of /repo's working tree (same
# effect as `git -C /repo apply` + revert, but /repo itself is never touched,
# so concurrent analyses are not disturbed), runs the quick checks (all
# claimed properties, or the ones given) with --root <scratch>, prints one
# line per check, and removes the scratch copy.
set -u
patch="$(readlink -f "$1")"; shift
props="${*:-C01 C04 C05 C07 C08 C09 C10 C11 C12 C13 C14 C15 C16}"
cd /verif
sc=$(mktemp -d /tmp/try_seed.XXXXXX)
trap 'rm -rf "$sc"' EXIT
cp -r /repo/tel2puml "$sc/tel2puml"
find "$sc" -name __pycache__ -type d -prune -exec rm -rf {} +
for extra in end-to-end-pumls puml_files docs; do [ -e /repo/$extra ] && ln -s /repo/$extra "$sc/$extra"; done
( cd "$sc" && patch -p1 -s --no-backup-if-mismatch < "$patch" ) || { echo "patch does not apply"; exit 3; }
ev=$(mktemp -d)
for p in $props; do
  out=$(./check "$p" --tier quick --root "$sc" --evidence-dir "$ev" 2>&1); rc=$?
  echo "$p rc=$rc $(echo "$out" | grep -E '^  VIOLATED|ANALYSIS-ERROR' | head -3 | cut -c1-220 | tr '\n' '|')"
done
rm -rf "$ev"
