"""C11 -- cleaning removes exactly the broken or out-of-window traces."""
from __future__ import annotations

import ast
from typing import Optional

from .. import sqlabs as S
from ..core import AnalysisError, FuncInfo, Report, call_name, unparse
from ..ctx import Ctx
from .sqlutil import (check_window_predicate, link_rows_follow_node_deletes,
                      some_span_predicate, sql_of, table_of,
                      time_window_bounds, window_params)
from .util import cguards, enclosing, forwards

EXPLANATION = (
    "Cleaning is decided on the statements *extracted* from the SQLAlchemy "
    "construction code (abstract interpretation to a normal form; the "
    "database is never run). R11.1 each cleaning call dominates "
    "find_unique_graphs and stream_data in otel_to_pv's CFG on both the "
    "ingest and the no-ingest arm. R11.2 frame condition: every DELETE on "
    "nodes selects by (possibly negated) membership of job_id in a "
    "job_id-valued subquery, every UPDATE on nodes writes only job_name, "
    "nothing else writes nodes during cleaning. R11.3 the dangling-parent "
    "selection: link parents with no stored node, mapped to trace ids "
    "through the link's child side. R11.4 the window deletion is the "
    "complement of 'some span of the trace starts or ends inside the "
    "window': the extracted row predicate is evaluated on all 27 orderings "
    "of start<=end against the bounds and must equal the specification; the "
    "window is (min + b, max - b) with b = time_buffer*60e9. R11.5 the name "
    "update takes job_name from the row with parent_event_id IS NULL of the "
    "same job_id. R11.6 the sibling predicate used for unique-graph "
    "candidates has the same normal form. R11.7 link rows follow node "
    "deletes."
    " Added: R11.7 no orphan link rows; R11.8 the window's ends come from save_data only (idioms: min/max or independent compare-and-assign; fallback only in the initial state); R11.9 no phantom parent link; every cleaning statement runs on every path.")
TRUSTED = ["builder-method semantics table of sa/sqlabs.py",
           "count(..).filter(P) > 0 under GROUP BY job_id means 'some span "
           "of the trace satisfies P'"]
NOT_DECIDED = ["SQL engine semantics beyond the builder algebra",
               "identity of the PV sequences of untouched traces (covered "
               "only through the frame condition)"]
ASSUMPTIONS = ["start_timestamp <= end_timestamp for every span"]


def check(rep: Report, ctx: Ctx) -> None:
    sql = sql_of(ctx)
    top = ctx.func("otel_to_pv")
    cleaners = {
        "remove_inconsistent_jobs":
            ctx.func("SQLDataHolder.remove_inconsistent_jobs"),
        "remove_jobs_outside_of_time_window":
            ctx.func("SQLDataHolder.remove_jobs_outside_of_time_window"),
        "update_job_names_by_root_span":
            ctx.func("SQLDataHolder.update_job_names_by_root_span"),
    }
    # ---- R11.1 ---------------------------------------------------------------
    rep.rule("R11.1", "each cleaning step dominates every use of the store "
             "(unique-graph search, streaming) on both arms", 6)
    cfg = ctx.cfg(top)

    def call_nodes(name: str) -> list[int]:
        out = []
        for n in ast.walk(top.node):
            if isinstance(n, ast.Call) and call_name(n) == name \
                    and isinstance(n.func, ast.Attribute):
                nid = cfg.container(n)
                if nid is not None:
                    out.append(nid)
        return out
    uses = {u: call_nodes(u) for u in ("find_unique_graphs", "stream_data")}
    if not uses["stream_data"]:
        raise AnalysisError("otel_to_pv: no call of stream_data")
    for cname in cleaners:
        cn = call_nodes(cname)
        for uname, unodes in uses.items():
            for u in unodes:
                ok = bool(cn) and cfg.every_path_passes(0, u, cn)
                rep.ob("R11.1", f"{cname} before {uname}", ok, fi=top,
                       node=cfg.nodes[u].stmt,
                       detail=(f"every path from entry to "
                               f"'{uname}(...)' passes through "
                               f"'{cname}()'" if ok else
                               f"a path reaches '{uname}(...)' without "
                               f"'{cname}()' (missing, conditional, or "
                               "placed after the use)"))

    # ---- statements of the cleaning entry points ----------------------------
    interps = {k: sql.run(f) for k, f in cleaners.items()}
    rep.rule("R11.2", "frame condition: whole traces or nothing", 3)
    for cname, it in interps.items():
        fi = cleaners[cname]
        for x in it.execs:
            if x.kind not in ("execute", "add_all") or isinstance(
                    x.stmt, S.Select):
                continue
            t = table_of(x.stmt)
            if t == "nodes" and isinstance(x.stmt, S.Delete):
                ok, why = _by_whole_trace(x.stmt)
                rep.ob("R11.2", f"{cname}: DELETE selects whole traces", ok,
                       fi=x.func, node=x.node, detail=why)
            elif t == "nodes" and isinstance(x.stmt, S.Update):
                keys = [k for k, _ in x.stmt.values]
                ok = bool(keys) and set(keys) <= {"job_name"}
                rep.ob("R11.2", f"{cname}: UPDATE writes only job_name", ok,
                       fi=x.func, node=x.node, detail=f"SET {keys}")
            elif t == "NODE_ASSOCIATION" and isinstance(x.stmt, S.Delete):
                continue  # R11.7
            else:
                rep.ob("R11.2", f"{cname}: unexpected write to {t}", False,
                       fi=x.func, node=x.node,
                       detail=f"cleaning runs '{x.stmt.nf()[:120]}'")

    # every cleaning step does its work on every path: the store may hold
    # traces of earlier runs, so "nothing to do" cannot be inferred from this
    # run's options (e.g. a zero buffer) or from this run's ingestion
    from ..cfg import ENTRY as _ENTRY, EXIT as _EXIT
    for cname, it in interps.items():
        fi = cleaners[cname]
        ccfg = ctx.cfg(fi)
        work = [x for x in it.execs if x.func is fi and x.kind == "execute"
                and isinstance(x.stmt, (S.Delete, S.Update))
                and table_of(x.stmt) == "nodes"]
        nodes_ = [ccfg.container(x.node) for x in work]
        nodes_ = [n for n in nodes_ if n is not None]
        ok = bool(nodes_) and ccfg.every_path_passes(_ENTRY, _EXIT, nodes_)
        rets = [r for r in ast.walk(fi.node) if isinstance(r, ast.Return)]
        rep.ob("R11.2", f"{cname}: the statement runs on every path", ok,
               fi=fi, node=rets[0] if rets and not ok else fi.node,
               detail=("unconditional" if ok else
                       "some path returns without executing the "
                       "DELETE/UPDATE on nodes: traces that should be "
                       "removed (or renamed) stay in the store and are "
                       "streamed"))
    frame_broken = {o.instance.split(":")[0] for o in rep.obligations
                    if o.rule == "R11.2" and not o.ok
                    and "DELETE selects" in o.instance}
    # ---- R11.3 ---------------------------------------------------------------
    rep.rule("R11.3", "dangling-parent selection", 3)
    if "remove_inconsistent_jobs" not in frame_broken:
        _dangling(rep, cleaners["remove_inconsistent_jobs"],
                  interps["remove_inconsistent_jobs"])
    else:
        rep.minima["R11.3"] = 0   # not evaluated: R11.2 already reports it

    # ---- R11.4 ---------------------------------------------------------------
    rep.rule("R11.4", "window deletion = complement of 'some span starts or "
             "ends inside the window'", 4)
    lo_idx, hi_idx = time_window_bounds(ctx, rep, "R11.4")
    fi = cleaners["remove_jobs_outside_of_time_window"]
    pred = None
    if "remove_jobs_outside_of_time_window" in frame_broken:
        rep.minima["R11.4"] = 0   # not evaluated: R11.2 already reports it
    if "remove_jobs_outside_of_time_window" not in frame_broken:
        pred = _window_delete(rep, ctx, fi,
                              interps["remove_jobs_outside_of_time_window"],
                              lo_idx, hi_idx)
    # the window handed to the predicate is get_time_window(self.time_buffer)
    gtw = ctx.func("get_time_window")
    forwards(rep, ctx, "R11.4", fi, gtw, {
        "time_buffer": lambda e: isinstance(e, ast.Attribute)
        and e.attr == "time_buffer",
        "data_holder": lambda e: isinstance(e, ast.Name) and e.id == "self"},
        what="the configured buffer of this holder")
    init = ctx.func("SQLDataHolder.__init__")
    tb = [n for n in ast.walk(init.node) if isinstance(n, (ast.Assign,
                                                          ast.AnnAssign))
          and isinstance(getattr(n, "target", None) or n.targets[0],
                         ast.Attribute)
          and (getattr(n, "target", None) or n.targets[0]).attr
          == "time_buffer"]
    ok = len(tb) == 1 and unparse(tb[0].value) == "config.time_buffer"
    rep.ob("R11.4", "time_buffer comes from the configuration", ok, fi=init,
           node=tb[0] if tb else init.node,
           detail=unparse(tb[0]) if tb else "<missing>")

    # ---- R11.5 ---------------------------------------------------------------
    rep.rule("R11.5", "name propagation from the root row of the same "
             "trace", 1)
    _rename(rep, cleaners["update_job_names_by_root_span"],
            interps["update_job_names_by_root_span"])

    # ---- R11.6 ---------------------------------------------------------------
    rep.rule("R11.6", "sibling agreement with the unique-graph candidate "
             "predicate", 1)
    sib = ctx.func("create_temp_table_of_root_nodes_in_time_window")
    sp = sibling_predicate(ctx, sib)
    if pred is not None and sp is not None:
        same = _generic(pred.nf()) == _generic(sp.nf())
        rep.ob("R11.6", "window predicates agree", same, fi=sib,
               node=sib.node,
               detail=(f"cleaning: {pred.nf()} | unique graphs: {sp.nf()}"))
    else:
        rep.ob("R11.6", "window predicates agree", True, fi=sib,
               node=sib.node, detail="not comparable: a window predicate "
               "could not be extracted (see R11.4 / R9.6)")

    # ---- R11.8 ---------------------------------------------------------------
    rep.rule("R11.8", "the window's ends are the earliest start and the "
             "latest end seen during ingestion", 4)
    sd = ctx.func("DataHolder.save_data")
    ev = sd.params()[1]
    for fld, fn, src in (("_min_timestamp", "min", "start_timestamp"),
                         ("_max_timestamp", "max", "end_timestamp")):
        st = [x for x in ast.walk(sd.node) if isinstance(x, ast.Assign)
              and unparse(x.targets[0]) == f"self.{fld}"]
        ok = False
        if len(st) == 1:
            val = ctx.reach(sd).resolve(st[0].value, at=st[0])
            gs = cguards(ctx, sd, st[0])
            if isinstance(val, ast.Call) and unparse(val.func) == fn:
                # x = min(x, v), unconditionally
                ok = sorted(unparse(a) for a in val.args) == sorted(
                    [f"self.{fld}", f"{ev}.{src}"]) and not gs
            elif unparse(val) == f"{ev}.{src}":
                # if v < x: x = v   (for max: if v > x) -- and nothing else
                # decides whether this field is updated
                lo, hi = (f"{ev}.{src}", f"self.{fld}") if fn == "min" \
                    else (f"self.{fld}", f"{ev}.{src}")
                ok = gs in ([("cmp", lo, "Lt", hi)], [("cmp", lo, "LtE", hi)])
        rep.ob("R11.8", f"{fld} = {fn}({fld}, span.{src})", ok, fi=sd,
               node=st[0] if st else sd.node,
               detail=(unparse(st[0])[:100] if st else "<missing>")
               + ("" if ok or not st else
                  f" under {[' '.join(g) for g in cguards(ctx, sd, st[0])]}"
                  " -- every span must be able to move this end of the "
                  "window, independently of the other end"))
    for prop_name, fld, other in (("min_timestamp", "_min_timestamp",
                                   "_max_timestamp"),
                                  ("max_timestamp", "_max_timestamp",
                                   "_min_timestamp")):
        g = ctx.func(f"DataHolder.{prop_name}")
        rets = [r for r in ast.walk(g.node) if isinstance(r, ast.Return)]
        last = max(rets, key=lambda r: r.lineno) if rets else None
        lastv = ctx.reach(g).resolve(last.value, at=last) \
            if last is not None and last.value is not None else None
        ok = lastv is not None and unparse(lastv) == f"self.{fld}" and \
            not enclosing(g.node, last, (ast.If,))
        rep.ob("R11.8", f"{prop_name} returns {fld} once data was seen", ok,
               fi=g, node=last if last is not None else g.node,
               detail=f"return {unparse(last.value) if last else '?'}")
        # the "nothing ingested" fallback (unbounded window) is returned only
        # in the initial state, i.e. when max < min
        early = [r for r in rets if r is not last]
        for r in early:
            gs = cguards(ctx, g, r)
            ok2 = gs in ([("cmp", "self._max_timestamp", "Lt",
                           "self._min_timestamp")],)
            rep.ob("R11.8", f"{prop_name}: the unbounded fallback only when "
                   "nothing was ingested", ok2, fi=g, node=r,
                   detail=f"'{unparse(r)}' under "
                          f"{[' '.join(x) for x in gs]} (initial state: "
                          "max = 0 < min = MAXINT)")
    # who may write the tracked bounds: they describe the spans handed to
    # save_data in this process (or stay at the "unbounded" initial values
    # when nothing was ingested) -- nothing else may move them, in particular
    # not the contents of the store, which cleaning itself has trimmed
    bounds_writers(rep, ctx, "R11.8")
    # save_data delegates every span to the concrete holder
    dl = [c for c in ast.walk(sd.node) if isinstance(c, ast.Call)
          and call_name(c) == "_save_data"]
    rep.ob("R11.8", "every span is both tracked and stored", len(dl) == 1
           and unparse(dl[0].args[0]) == ev and not enclosing(
               sd.node, dl[0], (ast.If, ast.Try)), fi=sd,
           node=dl[0] if dl else sd.node, detail="self._save_data(otel_event)")

    # ---- R11.7 ---------------------------------------------------------------
    rep.rule("R11.7", "cleaning leaves no orphan link rows", 2)
    link_rows_follow_node_deletes(rep, ctx, "R11.7", sql.run(top))

    # ---- R11.9 ---------------------------------------------------------------
    rep.rule("R11.9", "no phantom parent: the dangling-parent test only sees "
             "links of spans that were stored with that parent (a well-formed "
             "trace is never deleted for a parent id the store itself "
             "normalised away)", 1)
    from .c10 import link_root_agreement
    link_root_agreement(rep, ctx, "R11.9")

    # ---- R11.10 --------------------------------------------------------------
    # remove_inconsistent_jobs finds a broken trace only through its link
    # rows: a link that is queued apart from its span is dropped when the
    # next batch goes through the duplicate filter (which rebuilds the links
    # from that batch's spans), and the span with the missing parent survives
    # cleaning (seed C11-y)
    rep.rule("R11.10", "the link row of a span with a missing parent reaches "
             "the store: span and link are queued together and flushed "
             "together (= C10 R10.5)", 6)
    from . import c10 as _c10
    from .util import borrow
    borrow(rep, ctx, _c10, "C10", "R10.5", "R11.10")


def bounds_writers(rep: Report, ctx: Ctx, rule: str) -> None:
    """(shared with C15)  Only save_data (and the constructor) assign the
    tracked _min_timestamp / _max_timestamp."""
    sd = ctx.func("DataHolder.save_data")
    offenders = []
    for fi in ctx.index.all_functions():
        if fi.qualname == sd.qualname or fi.name == "__init__":
            continue
        for n in ast.walk(fi.node):
            tg = []
            if isinstance(n, ast.Assign):
                tg = n.targets
            elif isinstance(n, (ast.AugAssign, ast.AnnAssign)):
                tg = [n.target]
            for t in tg:
                for x in ast.walk(t):
                    if isinstance(x, ast.Attribute) and x.attr in (
                            "_min_timestamp", "_max_timestamp"):
                        offenders.append((fi, n, x.attr))
    rep.ob(rule, "only save_data moves the tracked time bounds",
           not offenders, fi=offenders[0][0] if offenders else sd,
           node=offenders[0][1] if offenders else sd.node,
           detail=("; ".join(f"{f.short} assigns {a}" for f, _, a in
                             offenders)
                   + " -- bounds recomputed from the (already trimmed) store "
                   "shrink the window on every re-run without ingestion: "
                   "each run deletes more traces and changes its answer")
           if offenders else
           "assigned in the constructor and in save_data only")


def _generic(nf: str) -> str:
    import re
    return re.sub(r":[^\[\]:]*\[(\d+)\]", r":W[\1]", nf)


def _by_whole_trace(d: S.Delete) -> tuple[bool, str]:
    if len(d.where) != 1:
        return False, f"{len(d.where)} where clauses"
    w = d.where[0]
    if isinstance(w, S.Not) and isinstance(w.item, S.In):
        w = S.In(w.item.col, w.item.what, not w.item.negated)
    if not (isinstance(w, S.In) and isinstance(w.col, S.Col)
            and w.col.table == "nodes"):
        return False, f"where clause '{d.where[0].nf()[:100]}' is not a " \
                      "membership test of a nodes column"
    if w.col.name != "job_id":
        return False, (f"rows are selected by nodes.{w.col.name}, not by "
                       "trace (job_id): part of a trace would be deleted")
    sel = w.what
    if not (isinstance(sel, S.Select) and len(sel.cols) == 1
            and isinstance(sel.cols[0], S.Col)
            and sel.cols[0].name == "job_id"):
        return False, "the subquery does not yield job_id values"
    return True, f"job_id {'NOT ' if w.negated else ''}IN (SELECT job_id ...)"


def _unwrap_in(w: S.V) -> Optional[S.In]:
    if isinstance(w, S.Not) and isinstance(w.item, S.In):
        w = S.In(w.item.col, w.item.what, not w.item.negated)
    if not isinstance(w, S.In):
        return None
    # job_id IN (SELECT job_id WHERE job_id [NOT] IN S)  ==  job_id [NOT] IN S
    for _ in range(3):
        sel = w.what
        if isinstance(sel, S.Select) and len(sel.cols) == 1 and isinstance(
                sel.cols[0], S.Col) and sel.cols[0].nf() == "nodes.job_id" \
                and isinstance(w.col, S.Col) and w.col.nf() == "nodes.job_id" \
                and len(sel.where) == 1 and not sel.joins and not sel.having \
                and not sel.group_by and sel.window is None:
            inner = sel.where[0]
            if isinstance(inner, S.Not) and isinstance(inner.item, S.In):
                inner = S.In(inner.item.col, inner.item.what,
                             not inner.item.negated)
            if isinstance(inner, S.In) and isinstance(inner.col, S.Col) \
                    and inner.col.nf() == "nodes.job_id":
                w = S.In(w.col, inner.what, w.negated != inner.negated)
                continue
        break
    return w


def _dangling(rep: Report, fi: FuncInfo, it: S.SqlInterp) -> None:
    dels = [x for x in it.execs if isinstance(x.stmt, S.Delete)
            and table_of(x.stmt) == "nodes"]
    if len(dels) != 1:
        raise AnalysisError(f"{fi.qualname}: expected one DELETE on nodes, "
                            f"found {len(dels)}")
    x = dels[0]
    w = _unwrap_in(x.stmt.where[0]) if x.stmt.where else None
    if w is None or not isinstance(w.what, S.Select):
        raise AnalysisError(f"{fi.qualname}: DELETE shape outside vocabulary")
    rep.ob("R11.3", "traces owning a dangling link are deleted (IN, not "
           "NOT IN)", not w.negated, fi=fi, node=x.node,
           detail=f"DELETE ... job_id {'NOT IN' if w.negated else 'IN'} (...)")
    s2 = w.what
    # (b) trace ids through the child side of the link
    join_ok, jd = False, "no join with NODE_ASSOCIATION"
    for t, on in s2.joins:
        if isinstance(t, S.TableRef) and t.name == "NODE_ASSOCIATION" \
                and isinstance(on, S.Cmp) and on.op == "==":
            names = {(c.table, c.name) for c in (on.left, on.right)
                     if isinstance(c, S.Col)}
            join_ok = names == {("NODE_ASSOCIATION", "child_id"),
                                ("nodes", "event_id")}
            jd = f"JOIN NODE_ASSOCIATION ON {on.nf()}"
    rep.ob("R11.3", "trace ids come from the child side of the link",
           join_ok, fi=fi, node=x.node,
           detail=jd + ("" if join_ok else " -- the span that *has* the "
                        "missing parent is the link's child; joining on "
                        "another column selects the wrong traces"))
    # (a) parents with no stored node
    inner = None
    for c in s2.where:
        ci = _unwrap_in(c)
        if ci is not None and isinstance(ci.col, S.Col) \
                and ci.col.name == "parent_id" and not ci.negated:
            inner = ci.what
    if inner is None:
        rep.ob("R11.3", "links are selected by their parent id", False, fi=fi,
               node=x.node, detail=f"where {[c.nf()[:80] for c in s2.where]}")
        return
    # unwrap SELECT over a subquery
    base = inner
    while isinstance(base, S.Select) and base.cols and isinstance(
            base.cols[0], S.Col) and base.cols[0].sub is not None \
            and not base.where:
        base = base.cols[0].sub
    ok, why = False, f"inner selection {base.nf()[:160]}"
    if isinstance(base, S.Select) and len(base.cols) == 1 and isinstance(
            base.cols[0], S.Col) and base.cols[0].name == "parent_id" \
            and len(base.where) == 1:
        c = S.normalise(base.where[0])
        if isinstance(c, S.Not) and isinstance(c.item, S.Exists):
            c = S.Exists(c.item.select, not c.item.negated)
        if isinstance(c, S.Not) and isinstance(c.item, S.In):
            c = S.In(c.item.col, c.item.what, not c.item.negated)
        if isinstance(c, S.Exists) and isinstance(c.select, S.Select) \
                and len(c.select.where) == 1 and isinstance(
                    c.select.where[0], S.Cmp):
            cc = c.select.where[0]
            names = {(k.table, k.name) for k in (cc.left, cc.right)
                     if isinstance(k, S.Col)}
            shape = names == {("NODE_ASSOCIATION", "parent_id"),
                              ("nodes", "event_id")} and cc.op == "=="
            ok = shape and c.negated
            why = (f"{'NOT ' if c.negated else ''}EXISTS(" + cc.nf() + ")"
                   + ("" if c.negated else " -- selects parents that DO "
                      "exist: every trace with a child span is deleted"))
        elif isinstance(c, S.In) and isinstance(c.col, S.Col) \
                and c.col.name == "parent_id" and isinstance(
                    c.what, S.Select) and len(c.what.cols) == 1 \
                and isinstance(c.what.cols[0], S.Col) \
                and c.what.cols[0].name == "event_id":
            ok = c.negated
            why = f"parent_id {'NOT IN' if c.negated else 'IN'} " \
                  "(SELECT nodes.event_id)"
    rep.ob("R11.3", "selected parents are those with no stored node", ok,
           fi=fi, node=x.node, detail=why)


def extract_window(fi: FuncInfo, sel: S.V) -> tuple[Optional[S.V], str]:
    """From ``SELECT job_id GROUP BY job_id HAVING count.filter(P) > 0``
    return (P, problem)."""
    if not isinstance(sel, S.Select):
        return None, "not a select"
    if [c.nf() for c in sel.group_by] != ["nodes.job_id"]:
        return None, (f"grouped by {[c.nf() for c in sel.group_by]}, not by "
                      "trace (nodes.job_id)")
    if not (len(sel.cols) == 1 and isinstance(sel.cols[0], S.Col)
            and sel.cols[0].name == "job_id"):
        return None, "does not select job_id"
    p = some_span_predicate(sel)
    if p is None:
        return None, (f"HAVING '{sel.having[0].nf()[:100] if sel.having else ''}'"
                      " is not of the form count(..).filter(P) > 0")
    return p, ""


def _window_delete(rep: Report, ctx: Ctx, fi: FuncInfo, it: S.SqlInterp,
                   lo_idx: int, hi_idx: int) -> Optional[S.V]:
    dels = [x for x in it.execs if isinstance(x.stmt, S.Delete)
            and table_of(x.stmt) == "nodes"]
    if len(dels) != 1:
        raise AnalysisError(f"{fi.qualname}: expected one DELETE on nodes")
    x = dels[0]
    w = _unwrap_in(x.stmt.where[0]) if x.stmt.where else None
    if w is None:
        raise AnalysisError(f"{fi.qualname}: DELETE shape outside vocabulary")
    rep.ob("R11.4", "traces NOT in the in-window set are deleted", w.negated,
           fi=fi, node=x.node,
           detail=f"DELETE ... job_id {'NOT IN' if w.negated else 'IN'} "
                  "(traces with a span in the window)"
                  + ("" if w.negated else " -- deletes exactly the traces "
                     "that should be kept"))
    pred, problem = extract_window(fi, w.what)
    if pred is None:
        if "grouped by" in problem or "HAVING" in problem:
            rep.ob("R11.4", "in-window set = traces with some span "
                   "satisfying P", False, fi=fi, node=x.node, detail=problem)
            return None
        raise AnalysisError(f"{fi.qualname}: {problem}")
    lo, hi = window_params(ctx, fi, pred, lo_idx, hi_idx)
    bad, n = check_window_predicate(pred, lo, hi)
    rep.ob("R11.4", f"row predicate equals the specification on {n} "
           "orderings", not bad, fi=fi, node=x.node,
           detail=(f"P = {pred.nf()}; specification (w0<=start<=w1) or "
                   f"(w0<=end<=w1)"
                   + (f"; disagrees on {len(bad)} ordering(s), e.g. "
                      f"{bad[0]}" if bad else f"; agrees on all {n}")))
    rep.analysed.setdefault("orderings_evaluated", 0)
    rep.analysed["orderings_evaluated"] += n
    return pred


def sibling_predicate(ctx: Ctx, sib: FuncInfo) -> Optional[S.V]:
    it = sql_of(ctx).run(sib)
    for x in it.execs:
        if isinstance(x.stmt, S.Insert) and x.stmt.from_select:
            sel = x.stmt.from_select[1]
            if isinstance(sel, S.Select):
                for t, _ in sel.joins:
                    if isinstance(t, S.Select):
                        p, _why = extract_window(sib, t)
                        return p
    return None


def _rename(rep: Report, fi: FuncInfo, it: S.SqlInterp) -> None:
    ups = [x for x in it.execs if isinstance(x.stmt, S.Update)]
    if len(ups) != 1:
        raise AnalysisError(f"{fi.qualname}: expected one UPDATE")
    x = ups[0]
    u = x.stmt
    ok, why = False, u.nf()[:200]
    vals = dict(u.values)
    src = vals.get("job_name")
    if isinstance(src, S.Col) and src.name == "job_name" and src.sub is not None \
            and len(u.where) == 1 and isinstance(u.where[0], S.Cmp) \
            and u.where[0].op == "==":
        c = u.where[0]
        cols = [k for k in (c.left, c.right) if isinstance(k, S.Col)]
        names = sorted((k.table, k.name) for k in cols)
        same_sub = all(k.sub is src.sub for k in cols if k.sub is not None)
        sub = src.sub
        root_only = isinstance(sub, S.Select) and len(sub.where) == 1 \
            and isinstance(sub.where[0], S.IsNull) \
            and not sub.where[0].negated \
            and isinstance(sub.where[0].col, S.Col) \
            and sub.where[0].col.name == "parent_event_id"
        ok = names == [("nodes", "job_id"), ("sub", "job_id")] and same_sub \
            and root_only
        why = (f"{u.nf()[:160]}; source rows: "
               f"{sub.nf()[:120] if isinstance(sub, S.Select) else '?'}")
    rep.ob("R11.5", "job_name := job_name of the root row with the same "
           "job_id", ok, fi=fi, node=x.node, detail=why)
