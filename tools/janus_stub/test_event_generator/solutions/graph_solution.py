"""Minimal functional stand-in for janus' GraphSolution (demo harness only;
never used by a check).  from_event_list links events through
previousEventIds exactly as the PV format documents."""
from .event_solution import EventSolution


class GraphSolution:
    def __init__(self):
        self.events = {}
        self.start_events = {}
        self.end_events = {}
        self.event_dict_count = 0

    def add_event(self, event):
        self.event_dict_count += 1
        key = self.event_dict_count
        self.events[key] = event
        if event.is_start:
            self.start_events[key] = event
        if event.is_end:
            self.end_events[key] = event
        return key

    @classmethod
    def from_event_list(cls, event_list):
        event_list = list(event_list)
        by_id = {}
        for pv in event_list:
            by_id[pv["eventId"]] = EventSolution(
                meta_data={"EventType": pv["eventType"]}
            )
        for pv in event_list:
            prev = pv.get("previousEventIds", [])
            if isinstance(prev, str):
                prev = [prev]
            for prev_id in prev:
                by_id[pv["eventId"]].add_prev_event(by_id[prev_id])
        for event in by_id.values():
            event.add_to_previous_events()
        graph = cls()
        for event in by_id.values():
            graph.add_event(event)
        return graph
