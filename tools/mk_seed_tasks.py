import json, sys
wave = sys.argv[1]
import glob, os
avoid = {}
for mp in sorted(glob.glob('/verif/seeded/*/meta.json')):
    m = json.load(open(mp))
    txt = " ".join(str(m.get("summary", "")).split())
    if len(txt) > 330:
        txt = txt[:330].rsplit(" ", 1)[0] + " ..."
    avoid.setdefault(m["property"], []).append(txt)
flavours = [
    "two cooperating sites that each look fine alone (change one function so that an assumption another function relies on no longer holds)",
    "a multi-step history of runs / operations (state left behind by an earlier step matters)",
    "a fault, exception or early exit at a particular point (error-handling / cleanup path)",
    "an unusual but legal input shape or ordering that the existing fixtures never contain"]
for line in open('/verif/properties.jsonl'):
    p = json.loads(line)
    pid = p['id']
    wt = f"/tmp/seed/{pid}_{wave}"
    a = p['anchors']
    mech = "\n".join(f"  - {m['name']}  ({m['where']})" for m in a.get('mechanism', []))
    state = "\n".join(f"  - {m['name']}: {m['meaning']}  ({m['where']})" for m in a.get('state', []))
    flavour = flavours[(int(pid[1:]) + ord(wave[0])) % len(flavours)]
    av = "\n".join(f"  - {x}" for x in avoid.get(pid, [])) or "  (none yet)"
    t = f"""# Task: seed a realistic, hard-to-notice regression into xtuml/otel2puml

You are helping to evaluate a verification effort.  You work ONLY inside your
own scratch git worktree of the project: `{wt}` (a checkout of the
repository's current HEAD).  Do not read or write `/repo`, `/verif` or any
other worktree under `/tmp/seed`.  Everything you produce goes into
`{wt}/_seed/`.

## The property you must break

**{pid} - {p['title']}**

{p['statement']}

Files involved: {', '.join(a['files'])}
{('State:' + chr(10) + state) if state else ''}
Mechanisms:
{mech}
Observable at: {', '.join(a.get('observe_at', []))}

## What to produce

A change to the source under `{wt}/tel2puml/` (NOT to tests, docs or config)
that **breaks this property** while

1. still importing/compiling,
2. leaving the project's existing test suite exactly as green as before
   (120 tests pass; a handful of test modules fail at collection because the
   `test_event_generator` (janus) package is not installed, and 2 OSError tests
   fail because we run as root - those are the baseline and must not change).
   Suite command, run from the worktree root (takes ~25 s):
   `cd {wt} && /venv/bin/python -m pytest -q -p no:cacheprovider --timeout=900 --continue-on-collection-errors 2>&1 | tail -5`
   Run it BEFORE your change too, so you know the baseline line
   (e.g. "120 passed, 2 failed, 13 errors").
3. looking like something a maintainer could plausibly commit: a refactor, a
   "simplification", a performance tweak, a bug fix that goes slightly wrong,
   a helper extracted with one detail lost.  No comments that give it away,
   no dead code, no special-casing of magic values.
4. **needing something specific to manifest** - NOT something ordinary use
   would expose at once.  Pick one (or combine): an unusual but legal input
   shape; a particular multi-step history of runs/operations; a particular
   batch size / ordering / duplication pattern; a fault or exception at a
   particular point; or two cooperating sites that each look fine alone (a
   change in one function that is only wrong because of what another function
   assumes).  Prefer changes in code paths that the fixtures of the existing
   tests do not exercise or cannot distinguish.

For THIS task prefer the following flavour if the code offers it:
**{flavour}**.

Ideas that were ALREADY used and must not be repeated (find a different
mechanism, preferably in a different function):
{av}

Read the code first (start from the files listed above) and understand the
mechanism you attack.  Small diffs are best (1-25 changed lines), one idea only.

## Demonstration

Write `{wt}/_seed/demo.py`: a small self-contained program that exercises the
real code of the worktree and **exits 0 on the original code and exits 1
(printing what went wrong) with your change applied**.  It must check the
property's observable behaviour (not implementation details, not source
text).  Run it as
`cd {wt} && PYTHONPATH={wt}:/tmp/stub /venv/bin/python _seed/demo.py`.

`/tmp/stub` holds a small functional stand-in for the missing
`test_event_generator` package (GraphSolution.from_event_list / EventSolution),
good enough that `tel2puml.pv_to_puml.pv_to_puml.pv_to_puml_string(pv_stream)`
works end to end on lists of PV event dicts
(`jobId, jobName, eventId, eventType, timestamp, applicationName,
previousEventIds`).  The puml->events simulator and puml-equivalence checker
of janus are NOT available, so a demo must judge a diagram by parsing the
emitted text itself or by inspecting the intermediate objects.  SQLite
(in-memory or a temp file), sqlalchemy, pydantic, networkx, pm4py, jq are
installed in /venv.  Use temp dirs for any files and clean them up.

## Deliverables (all in `{wt}/_seed/`)

* `patch.diff` - output of `git -C {wt} diff -- tel2puml` with your change applied.
* `demo.py` - as above.
* `meta.json` with keys: `property` ("{pid}"), `summary` (what was changed and
  why it breaks the property), `files_changed`, `needs_to_manifest` (exactly
  what input/history/schedule is needed), `why_tests_pass`,
  `how_to_run_demo` (the exact command line above),
  `looks_like` (the plausible motive, one line).

Before finishing, verify yourself: (a) `git stash`-free procedure: run
`git -C {wt} checkout -- tel2puml`, run the demo -> exit 0; then
`git -C {wt} apply _seed/patch.diff`, run the demo -> exit 1; run the suite
with the patch -> same summary line as the baseline.  Leave the worktree WITH
the patch applied.  Finish with a 5-line report: what you changed, what is
needed to see it, the three results.  If after a serious attempt you cannot
find a change that meets every requirement, say so plainly instead of
delivering a weak one.
"""
    if os.path.isdir(f"{wt}/_seed"):
        open(f"{wt}/_seed/TASK.md", "w").write(t)
print("ok")
