"""Generic linear-form evaluation of integer arithmetic over named atoms."""
from __future__ import annotations

import ast
from fractions import Fraction
from typing import Callable, Optional

from .core import AnalysisError, unparse
from .dataflow import Defs

Form = dict[str, Fraction]


def lin_eval(e: ast.AST, defs: Defs,
             atom: Callable[[ast.AST], Optional[str]], depth: int = 8) -> Form:
    """Evaluate ``e`` to ``{atom: coefficient, '1': constant}``.  ``atom``
    names leaf expressions (attributes, parameters); local names with a
    single binding are followed."""
    if depth < 0:
        raise AnalysisError("linear evaluation too deep")
    a = atom(e)
    if a is not None:
        return {a: Fraction(1)}
    if isinstance(e, ast.Constant) and isinstance(e.value, (int, float)) \
            and not isinstance(e.value, bool):
        return {"1": Fraction(e.value)}
    if isinstance(e, ast.Name):
        bs = defs.of(e.id)
        if len(bs) == 1 and bs[0].kind == "assign" and bs[0].value is not None:
            return lin_eval(bs[0].value, defs, atom, depth - 1)
        raise AnalysisError(f"name '{e.id}' has no single definition for "
                            "linear evaluation")
    if isinstance(e, ast.UnaryOp) and isinstance(e.op, ast.USub):
        return {k: -c for k, c in lin_eval(e.operand, defs, atom,
                                           depth - 1).items()}
    if isinstance(e, ast.BinOp):
        l = lin_eval(e.left, defs, atom, depth - 1)
        r = lin_eval(e.right, defs, atom, depth - 1)
        if isinstance(e.op, (ast.Add, ast.Sub)):
            s = 1 if isinstance(e.op, ast.Add) else -1
            out = dict(l)
            for k, c in r.items():
                out[k] = out.get(k, Fraction(0)) + s * c
            return {k: c for k, c in out.items() if c}
        if isinstance(e.op, ast.Mult):
            for x, y in ((l, r), (r, l)):
                if set(x) <= {"1"}:
                    k = x.get("1", Fraction(0))
                    return {n: c * k for n, c in y.items() if c * k}
        if isinstance(e.op, ast.Pow) and set(l) <= {"1"} and set(r) <= {"1"}:
            return {"1": l.get("1", Fraction(0)) ** int(r.get("1", 0))}
    if isinstance(e, ast.Call) and unparse(e.func) == "int" and len(e.args) == 1:
        return lin_eval(e.args[0], defs, atom, depth - 1)
    raise AnalysisError(f"'{unparse(e)[:60]}' is not linear integer "
                        "arithmetic over the known atoms")


def show(form: Form) -> str:
    parts = []
    for k in sorted(form, key=lambda x: (x == "1", x)):
        c = form[k]
        if not c:
            continue
        parts.append(f"{c}" if k == "1" else
                     (f"{k}" if c == 1 else f"-{k}" if c == -1 else f"{c}*{k}"))
    return " + ".join(parts).replace("+ -", "- ") or "0"
