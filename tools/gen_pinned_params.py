#!/usr/bin/env python3
"""Records the parameter names of every function / method whose key
(``Class.method`` or ``function``) is unique in /repo's package, as the
reference signature table used by sa.core.normalise_params.  Re-run only
when the reference tree changes deliberately."""
import ast, json, sys
from pathlib import Path
sys.path.insert(0, str(Path(__file__).resolve().parent.parent))
from sa.core import (DEFAULT_ROOT, PACKAGE, _iter_defs, _def_key, _param_args,
                     PINNED_PARAMS_FILE, PINNED_FUNCS_FILE,
                     function_fingerprint)
table, count, fps = {}, {}, {}
for p in sorted((DEFAULT_ROOT / PACKAGE).rglob("*.py")):
    for cls, f in _iter_defs(ast.parse(p.read_text())):
        k = _def_key(cls, f.name)
        count[k] = count.get(k, 0) + 1
        table[k] = [a.arg for a in _param_args(f)]
        fps[k] = function_fingerprint(f)
table = {k: v for k, v in sorted(table.items()) if count[k] == 1 and v}
PINNED_PARAMS_FILE.write_text(json.dumps(table, indent=0))
print(len(table), "signatures")
fps = {k: v for k, v in sorted(fps.items()) if count[k] == 1}
PINNED_FUNCS_FILE.write_text(json.dumps(fps, indent=0))
print(len(fps), "fingerprints")
