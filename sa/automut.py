"""Systematic AST mutation of the functions a property's rules consult.

``python -m sa.automut C10 [--limit N] [--show]`` generates first-order
mutants (statement deletion, comparison flips, and/or and &/| swaps, negated
conditions, swapped call arguments, sibling-attribute swaps, constant
changes) in every function the property's rules looked at, runs the property
check on a scratch copy of each, and reports which mutants no rule notices.

An undetected mutant is *not* automatically a gap: many are equivalent or do
not touch the property.  The list is a triage aid used while strengthening
the rules (results in DESIGN.md section 12); it never influences a verdict.
"""
from __future__ import annotations

import ast
import copy
import shutil
import sys
import tempfile
from concurrent.futures import ProcessPoolExecutor
from pathlib import Path
from typing import Any, Iterator

from .core import AnalysisError, DEFAULT_ROOT, PACKAGE, unparse

FLIP = {ast.Lt: ast.LtE, ast.LtE: ast.Lt, ast.Gt: ast.GtE, ast.GtE: ast.Gt,
        ast.Eq: ast.NotEq, ast.NotEq: ast.Eq, ast.In: ast.NotIn,
        ast.NotIn: ast.In, ast.Is: ast.IsNot, ast.IsNot: ast.Is}
SIBLINGS = [("start_timestamp", "end_timestamp"), ("job_id", "job_name"),
            ("event_id", "parent_event_id"), ("parent_id", "child_id"),
            ("event_sets", "in_event_sets"), ("start_uid", "end_uid"),
            ("post_events", "previous_events"), ("event_type", "event_id"),
            ("start_events", "end_events"), ("min_timestamp", "max_timestamp")]


def mutants_of(func: ast.FunctionDef) -> Iterator[tuple[str, ast.FunctionDef]]:
    nodes = list(ast.walk(func))
    for i, n in enumerate(nodes):
        def clone() -> tuple[ast.FunctionDef, ast.AST]:
            f2 = copy.deepcopy(func)
            return f2, list(ast.walk(f2))[i]
        if isinstance(n, (ast.Expr, ast.Assign, ast.AugAssign)) and not (
                isinstance(n, ast.Expr) and isinstance(n.value, ast.Constant)):
            f2, m = clone()
            desc = f"delete '{unparse(n)[:60]}'"
            for parent in ast.walk(f2):
                for fld in ("body", "orelse", "finalbody"):
                    blk = getattr(parent, fld, None)
                    if isinstance(blk, list) and m in blk:
                        blk[blk.index(m)] = ast.Pass()
            yield desc, f2
        if isinstance(n, ast.Compare) and len(n.ops) == 1 and type(
                n.ops[0]) in FLIP:
            f2, m = clone()
            m.ops = [FLIP[type(n.ops[0])]()]
            yield f"flip comparison in '{unparse(n)[:60]}'", f2
        if isinstance(n, ast.BoolOp):
            f2, m = clone()
            m.op = ast.Or() if isinstance(n.op, ast.And) else ast.And()
            yield f"and<->or in '{unparse(n)[:60]}'", f2
        if isinstance(n, ast.BinOp) and isinstance(n.op, (ast.BitAnd,
                                                           ast.BitOr)):
            f2, m = clone()
            m.op = ast.BitOr() if isinstance(n.op, ast.BitAnd) else \
                ast.BitAnd()
            yield f"&<->| in '{unparse(n)[:60]}'", f2
        if isinstance(n, ast.BinOp) and isinstance(n.op, (ast.Add, ast.Sub)):
            f2, m = clone()
            m.op = ast.Sub() if isinstance(n.op, ast.Add) else ast.Add()
            yield f"+<->- in '{unparse(n)[:60]}'", f2
        if isinstance(n, (ast.If, ast.While)) and not (
                isinstance(n.test, ast.Constant)):
            f2, m = clone()
            m.test = ast.UnaryOp(op=ast.Not(), operand=m.test)
            yield f"negate condition '{unparse(n.test)[:60]}'", f2
        if isinstance(n, ast.Call) and len(n.args) >= 2 and not any(
                isinstance(a, ast.Starred) for a in n.args[:2]):
            f2, m = clone()
            m.args[0], m.args[1] = m.args[1], m.args[0]
            yield f"swap first two arguments of '{unparse(n)[:60]}'", f2
        if isinstance(n, ast.Attribute):
            for a, b in SIBLINGS:
                if n.attr in (a, b):
                    f2, m = clone()
                    m.attr = b if n.attr == a else a
                    yield f"{n.attr}->{m.attr} in '{unparse(n)[:50]}'", f2
        if isinstance(n, ast.Constant) and isinstance(n.value, bool):
            f2, m = clone()
            m.value = not n.value
            yield f"{n.value}->{m.value}", f2
        elif isinstance(n, ast.Constant) and isinstance(n.value, int) \
                and n.value in (0, 1):
            f2, m = clone()
            m.value = n.value + 1
            yield f"constant {n.value}->{m.value}", f2
        if isinstance(n, ast.Return) and n.value is not None and not \
                isinstance(n.value, ast.Constant):
            pass


def _run(args: tuple[str, str, str, str, str, str]) -> dict[str, Any]:
    prop, root, relpath, qual, desc, new_src = args
    scratch = Path(tempfile.mkdtemp(prefix="sa_automut_"))
    try:
        shutil.copytree(Path(root) / PACKAGE, scratch / PACKAGE,
                        ignore=shutil.ignore_patterns("__pycache__"))
        import os
        for extra in ("end-to-end-pumls", "puml_files", "docs"):
            if (Path(root) / extra).exists():
                os.symlink(Path(root) / extra, scratch / extra)
        (scratch / relpath).write_text(new_src)
        from .main import run_rules, CLAIMED
        fired: list[str] = []
        errors: list[str] = []
        for pr in (CLAIMED if prop == "ALL" else [prop]):
            try:
                rep, _ = run_rules(pr, scratch)
                fired += sorted({o.rule for o in rep.violations})
            except AnalysisError as exc:
                errors.append(f"{pr}: {str(exc)[:80]}")
        if fired:
            status = "detected"
        elif errors:
            fired, status = errors, "analysis-error"
        else:
            status = "undetected"
        return {"func": qual, "desc": desc, "status": status, "fired": fired}
    finally:
        shutil.rmtree(scratch, ignore_errors=True)


def _survives_suite(args: tuple[str, str, str]) -> bool:
    """Triage aid: does the pinned test suite still pass (120 baseline
    tests) on a scratch copy of the repository with this mutant?"""
    import json as _json
    import subprocess
    import xml.etree.ElementTree as ET
    root, relpath, new_src = args
    scratch = Path(tempfile.mkdtemp(prefix="sa_automut_t_"))
    try:
        for d in ("tel2puml", "tests", "end-to-end-pumls", "puml_files",
                  "docs"):
            if (Path(root) / d).exists():
                shutil.copytree(Path(root) / d, scratch / d,
                                ignore=shutil.ignore_patterns("__pycache__"))
        (scratch / relpath).write_text(new_src)
        xml = scratch / "j.xml"
        subprocess.run(
            ["/venv/bin/python", "-m", "pytest", "-q", "-p",
             "no:cacheprovider", "--timeout=300",
             "--continue-on-collection-errors", f"--junitxml={xml}",
             "tests/tel2puml/otel_to_pv", "tests/tel2puml/test_utils.py",
             "tests/tel2puml/test_tel2puml_types.py"],
            cwd=scratch, capture_output=True, timeout=900)
        base = _json.load(open("/root/.vp/BASELINE.json"))["stable_pass"]
        res = {}
        for tc in ET.parse(xml).iter("testcase"):
            res[f"{tc.get('classname')}::{tc.get('name')}"] = not any(
                c.tag in ("failure", "error", "skipped") for c in tc)
        return all(res.get(n) for n in base)
    except Exception:
        return False
    finally:
        shutil.rmtree(scratch, ignore_errors=True)


def generate(prop: str, root: Path) -> list[tuple[str, str, str, str, str, str]]:
    from .main import run_rules, CLAIMED
    seen: set[str] = set()
    ctx = None
    for pr in (CLAIMED if prop == "ALL" else [prop]):
        rep, ctx = run_rules(pr, root)
        seen |= set(rep.funcs_seen)
    assert ctx is not None
    jobs = []
    for q in sorted(seen):
        fi = ctx.index.functions.get(q)
        if fi is None:
            continue
        mod_src = fi.module.src
        tree = ast.parse(mod_src)
        # locate the function node in a fresh parse by position
        target = None
        for n in ast.walk(tree):
            if isinstance(n, (ast.FunctionDef, ast.AsyncFunctionDef)) \
                    and n.name == fi.node.name \
                    and n.lineno == fi.node.lineno:
                target = n
        if target is None:
            continue
        for desc, f2 in mutants_of(target):
            t2 = copy.deepcopy(tree)
            for n in ast.walk(t2):
                for fld in ("body",):
                    blk = getattr(n, fld, None)
                    if isinstance(blk, list):
                        for k, st in enumerate(blk):
                            if isinstance(st, (ast.FunctionDef,
                                               ast.AsyncFunctionDef)) \
                                    and st.name == target.name \
                                    and st.lineno == target.lineno:
                                blk[k] = f2
            try:
                src = ast.unparse(ast.fix_missing_locations(t2)) + "\n"
                ast.parse(src)
            except Exception:
                continue
            jobs.append((prop, str(root), fi.module.relpath, q.split(":")[-1],
                         desc, src))
    return jobs


def main() -> int:
    args = [a for a in sys.argv[1:] if not a.startswith("--")]
    show = "--show" in sys.argv
    limit = None
    for a in sys.argv[1:]:
        if a.startswith("--limit="):
            limit = int(a.split("=")[1])
    for prop in args:
        jobs = generate(prop.upper(), DEFAULT_ROOT)
        if limit:
            jobs = jobs[:limit]
        with ProcessPoolExecutor(max_workers=16) as ex:
            res = list(ex.map(_run, jobs, chunksize=4))
        det = sum(1 for r in res if r["status"] == "detected")
        err = sum(1 for r in res if r["status"] == "analysis-error")
        und = [r for r in res if r["status"] == "undetected"]
        print(f"{prop}: {len(res)} auto-mutants, {det} detected, {err} "
              f"analysis-error, {len(und)} undetected")
        if "--with-tests" in sys.argv:
            # keep only the undetected mutants the pinned suite also accepts
            by = {(j[3], j[4]): j for j in jobs}
            und_jobs = [by[(r["func"], r["desc"])] for r in und
                        if (r["func"], r["desc"]) in by]
            with ProcessPoolExecutor(max_workers=16) as ex:
                ok = list(ex.map(_survives_suite,
                                 [(j[1], j[2], j[5]) for j in und_jobs]))
            keep = {(j[3], j[4]) for j, o in zip(und_jobs, ok) if o}
            print(f"   of {len(und)} undetected, {len(keep)} also pass the "
                  "pinned suite")
            und = [r for r in und if (r["func"], r["desc"]) in keep]
        if show:
            for r in und:
                print(f"   UNDETECTED {r['func']}: {r['desc']}")
            if "--detected" in sys.argv:
                for r in res:
                    if r["status"] == "detected":
                        print(f"   DETECTED {r['func']}: {r['desc']} :: "
                              f"{' '.join(r['fired'])}")
            for r in res:
                if r["status"] == "analysis-error":
                    print(f"   ANALYSIS-ERROR {r['func']}: {r['desc']} :: "
                          f"{r['fired'][0]}")
    return 0


if __name__ == "__main__":
    raise SystemExit(main())
