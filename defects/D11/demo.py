"""D11: `RuntimeError: Set changed size during iteration` out of
`filter_and_replace_breaks_connected_to_end_events`
(tel2puml/loop_detection/calculate_updated_graph.py).

Mechanism
---------
The function does `for break_event in loop.break_events:` and, for a break
event that passes its `if` ("qualifies"), adds ONE `dummy_break_event` object
to `loop.break_events` once per qualifying in-edge (k times - but it is the
same object every time, so the set grows by min(k, 1)) and then removes the
break event.  Net size change: 0 when k >= 1, -1 when k == 0.  CPython checks
the set size at every `next()` - including the one after the last element - so
k == 0 for ANY qualifying break event raises, regardless of how many break
events there are or of iteration order (no hash-seed sensitivity).  k >= 2
does NOT raise (same dummy object added twice).

k == 0 needs a break event that qualifies but has no in-edge from a non-end
event of the loop.  On a top level graph that cannot happen (a break event
that is an exit of an end event is only classified as a break event when a
non-end loop event has a direct edge to it).  It can happen inside the sub
graph of an enclosing loop, where "qualifies" is also satisfied by an out edge
to the enclosing loop's dummy end event.

Input (each job is a plain sequence, one letter = one event type)
-----------------------------------------------------------------
Outer loop  L1 = ( B  L2  W  L3 )*      left normally after E to Z
inner loop  L2 = C ( D C )*             while-style: left from C to W;
                                        D can also break out of L1 to X
inner loop  L3 = ( Y E )*               Y can break out (of L3 and L1) via V to X
after a break, X continues to Z like the normal exit.

    ABCDCWYEZ          one pass, L2 iterates once
    ABCDCWYEYEBCWYEZ   L3 iterates twice, L1 iterates twice
    ABCDXZ             break from D
    ABCWYVXZ           break from Y through V
    ABWYEZ             L2 skipped (B straight to W)

Inside L1's sub graph L3 is collapsed first into a LoopEvent that has edges to
X (through its break V) and to L1's dummy end (E is L1's end event).  Then
L2 = {C, D}: end D, exit point X, and the L3 LoopEvent is an in-node of X
reachable from C through W, so it is classified as a break event of L2.  It
qualifies (edge to the dummy end) and its only in-edge comes from W, which is
not a loop event: k == 0 -> remove without add -> RuntimeError.

Run:  PYTHONPATH=<checkout>:/verif/tools/janus_stub /venv/bin/python demo.py
exit 1: the RuntimeError was raised (unchanged code) or the diagram fails the
        sanity checks;
exit 0: with `for break_event in list(loop.break_events):` a diagram is
        produced in which every input event type appears and every `break`
        is inside a repeat.

The last section is informational only (does not affect the exit code): the
same family WITHOUT the job ABWYEZ also raises the RuntimeError on unchanged
code, but with the one-line repair it then dies with
`IndexError: pop from empty list` in find_and_add_loop_kill_paths - dropping
the k == 0 break event discards the only path C -> W -> L3 -> dummy end.
"""
import sys
import traceback

from tel2puml.pv_to_puml.pv_to_puml import pv_to_puml_string


def job(jid, seq):
    evs, prev = [], None
    for i, t in enumerate(seq):
        eid = f"{jid}-{i}"
        evs.append(dict(jobId=jid, jobName="J", eventId=eid, eventType=t,
                        timestamp=f"2024-01-01T00:00:{i:02d}.000000Z",
                        applicationName="app",
                        previousEventIds=[prev] if prev else []))
        prev = eid
    return evs


def run(jobs):
    return pv_to_puml_string(
        [job(f"j{k}", list(s)) for k, s in enumerate(jobs)]
    )


def where(exc):
    tb = traceback.extract_tb(exc.__traceback__)[-1]
    return f"{tb.name} ({tb.filename.rsplit('/', 1)[-1]}:{tb.lineno})"


MAIN = ["ABCDCWYEZ", "ABCDCWYEYEBCWYEZ", "ABCDXZ", "ABCWYVXZ", "ABWYEZ"]
RESIDUAL = MAIN[:4]
RUNS = 5

problems, puml = [], None
for n in range(RUNS):
    try:
        puml = run(MAIN)
    except RuntimeError as exc:
        problems.append(f"run {n + 1}/{RUNS}: RuntimeError: {exc} "
                        f"in {where(exc)}")
if problems:
    print("jobs:", MAIN)
    print("\n".join(problems))
    sys.exit(1)

# sanity checks on the diagram
lines = [ln.strip() for ln in puml.splitlines()]
shown = {ln[1:-1] for ln in lines if ln.startswith(":") and ln.endswith(";")}
missing = sorted(set("".join(MAIN)) - shown)
if missing:
    problems.append(f"event types missing from the diagram: {missing}")
depth = 0
for i, ln in enumerate(lines):
    if ln == "repeat":
        depth += 1
    elif ln.startswith("repeat while"):
        depth -= 1
    elif ln == "break" and depth == 0:
        problems.append(f"line {i + 1}: 'break' outside any repeat")
if problems:
    print(puml)
    print("\n".join(problems))
    sys.exit(1)
print(puml)
print(f"ok: {RUNS} runs without RuntimeError; all event types "
      f"{sorted(shown)} present; every break is inside a repeat")

# informational: the 4-job family
print("\n[info] same family without the job ABWYEZ:", RESIDUAL)
try:
    run(RESIDUAL)
    print("[info] diagram produced")
except Exception as exc:  # noqa: BLE001
    print(f"[info] {type(exc).__name__}: {exc} in {where(exc)}")
