"""Launcher: ``python -m sa.main <ID> --tier quick|thorough [--root DIR]``.

Exit codes: 0 property-part holds on every rule instance (known findings are
printed as ``KNOWN-FINDING:`` lines); 1 + ``VIOLATION property=<id>
replay=<path>``; 2 + ``ANALYSIS-ERROR`` the analysis could not be carried out.
"""
from __future__ import annotations

import argparse
import importlib
import json
import os
import sys
import time
import traceback
from pathlib import Path
from typing import Any

from .core import (AnalysisError, DEFAULT_ROOT, Index, Report, VERIF_DIR,
                   load_known_findings)
from .ctx import Ctx

CLAIMED = ["C01", "C04", "C05", "C07", "C08", "C09", "C10", "C11", "C12",
           "C13", "C14", "C15", "C16"]


def run_rules(prop: str, root: Path) -> tuple[Report, Ctx]:
    index = Index(root)
    ctx = Ctx(index)
    rep = Report(prop, index)
    mod = importlib.import_module(f"sa.rules.{prop.lower()}")
    try:
        mod.check(rep, ctx)
        rep.check_minima()
    except AnalysisError as exc:
        # obligations already found violated are verdicts of their rules and
        # stay valid; the rest of the analysis could not be carried out (or
        # another rule lost instances - typically because of the very
        # construct that is reported)
        if not rep.violations:
            raise
        rep.analysis_error = str(exc)           # type: ignore[attr-defined]
    return rep, ctx


def evaluate(prop: str, root: Path) -> dict[str, Any]:
    """Run the rules; classify violations against known_findings.json."""
    rep, ctx = run_rules(prop, root)
    known = load_known_findings()
    known_keys = {f["key"]: f for f in known.get("findings", [])
                  if f.get("property") == prop}
    new, listed = [], []
    for o in rep.violations:
        (listed if o.key in known_keys else new).append(o)
    return {"report": rep, "ctx": ctx, "new": new, "listed": listed,
            "known_keys": known_keys}


def write_replay(prop: str, ob, n: int, evidence_dir: Path, root: Path) -> Path:
    d = evidence_dir / "replay"
    d.mkdir(parents=True, exist_ok=True)
    safe_rule = ob.rule.replace("/", "_")
    p = d / f"{prop}-{safe_rule}-{n}.json"
    p.write_text(json.dumps({
        "property": prop, "key": ob.key, "root": str(root), **ob.to_json(),
        "how_to_replay": f"./check {prop} --tier quick --replay {p}",
    }, indent=1))
    return p


def main(argv: list[str] | None = None) -> int:
    ap = argparse.ArgumentParser()
    ap.add_argument("prop")
    ap.add_argument("--tier", default=os.environ.get("VERIF_TIER", "quick"),
                    choices=["quick", "thorough"])
    ap.add_argument("--root", default=str(DEFAULT_ROOT))
    ap.add_argument("--replay", default=None)
    ap.add_argument("--evidence-dir", default=str(VERIF_DIR / "evidence"))
    ap.add_argument("--no-evidence", action="store_true")
    ap.add_argument("--json", action="store_true",
                    help="print violated obligations as JSON (self-test)")
    ap.add_argument("--jobs", type=int, default=16)
    args = ap.parse_args(argv)
    prop = args.prop.upper()
    t0 = time.monotonic()
    seed = int(os.environ.get("VERIF_SEED", "0") or 0)
    root = Path(args.root)
    evidence_dir = Path(args.evidence_dir)
    try:
        if prop not in CLAIMED:
            raise AnalysisError(f"property {prop} is not claimed")
        res = evaluate(prop, root)
        rep: Report = res["report"]
        selftest: dict[str, Any] | None = None
        if args.tier == "thorough" and not args.replay:
            from . import selftest as st
            selftest = st.run(prop, root, jobs=args.jobs)
    except AnalysisError as exc:
        print(f"ANALYSIS-ERROR property={prop} {exc}")
        return 2
    except Exception:  # a traceback must not look like a violation
        print(f"ANALYSIS-ERROR property={prop} internal error")
        traceback.print_exc()
        return 2

    if args.json:
        print(json.dumps([o.to_json() | {"key": o.key}
                          for o in rep.violations]))
        return 1 if res["new"] else 0

    if args.replay:
        want = json.loads(Path(args.replay).read_text())["key"]
        hit = [o for o in rep.violations if o.key == want]
        for o in hit:
            print(f"REPLAY still violated: {o.rule} {o.instance} at "
                  f"{o.file}:{o.line} -- {o.detail}")
            print(f"VIOLATION property={prop} replay={args.replay}")
        if not hit:
            print(f"REPLAY {want}: holds on the current tree")
        return 1 if hit else 0

    # -- report ---------------------------------------------------------------
    rc = 0
    counts: dict[str, list[int]] = {}
    for o in rep.obligations:
        c = counts.setdefault(o.rule, [0, 0])
        c[0] += 1
        c[1] += 1 if o.ok else 0
    print(f"[{prop}] tier={args.tier} root={root} "
          f"modules={len(rep.index.modules)} "
          f"functions_analysed={len(rep.funcs_seen)}")
    for rule in sorted(counts, key=_rule_key):
        tot, ok = counts[rule]
        print(f"  {rule:<8} {ok}/{tot} obligations hold  -- "
              f"{rep.rules_text.get(rule, '')[:110]}")
    for o in res["listed"]:
        f = res["known_keys"][o.key]
        print(f"KNOWN-FINDING: property={prop} {o.rule} {o.instance} at "
              f"{o.file} ({o.func}): {f.get('what', o.detail)}")
    if getattr(rep, "analysis_error", None):
        print(f"  NOTE the analysis stopped after the violation(s) below: "
              f"{rep.analysis_error}")      # type: ignore[attr-defined]
    for n, o in enumerate(res["new"], 1):
        rc = 1
        print(f"  VIOLATED {o.rule} [{o.instance}] {o.file}:{o.line} "
              f"in {o.func}\n      statement: {o.stmt}\n      {o.detail}")
        if o.path:
            print("      path: " + " -> ".join(o.path))
        p = write_replay(prop, o, n, evidence_dir, root)
        print(f"VIOLATION property={prop} replay={p}")
    st_fail = 0
    if selftest is not None:
        print(f"  self-test: {selftest['mutants_detected']}/"
              f"{selftest['mutants']} mutants detected, "
              f"{selftest['twins_silent']}/{selftest['twins']} benign twins "
              f"silent, {selftest['positive_examples_ok']}/"
              f"{selftest['positive_examples']} positive examples match")
        for bad in selftest["failures"]:
            st_fail += 1
            print(f"  SELFTEST-FAILURE {bad}")
    if st_fail:
        print(f"ANALYSIS-ERROR property={prop} checker self-test failed "
              f"({st_fail}); verdict not trusted")
        rc = rc or 2

    if not args.no_evidence:
        write_evidence(prop, args.tier, seed, rep, res, selftest,
                       time.monotonic() - t0, evidence_dir, root)
    return rc


def _rule_key(rule: str) -> tuple[int, ...]:
    digits = "".join(ch if ch.isdigit() else " " for ch in rule).split()
    return tuple(int(d) for d in digits)


def write_evidence(prop: str, tier: str, seed: int, rep: Report,
                   res: dict[str, Any], selftest: dict[str, Any] | None,
                   wall: float, evidence_dir: Path, root: Path) -> None:
    ctx: Ctx = res["ctx"]
    obligations = rep.obligations
    distinct = {o.key for o in obligations if o.stmt or o.detail}
    samples = [o.to_json() for o in obligations[:60]]
    mod = importlib.import_module(f"sa.rules.{prop.lower()}")
    analysed = {
        "repository_root": str(root),
        **rep.index.stats(),
        "functions_consulted": sorted(rep.funcs_seen),
        **(ctx.cg.stats() if ctx._cg is not None else {}),
        **rep.analysed,
    }
    coverage: dict[str, Any] = {
        "explanation": mod.EXPLANATION,
        "rules": rep.rules_text,
        "obligations": len(obligations),
        "discharged": sum(1 for o in obligations if o.ok),
        "known_findings_matched": len(res["listed"]),
        "evaluations": len(obligations) + (
            (selftest["mutants"] + selftest["twins"]) if selftest else 0),
        "distinct_nontrivial": len(distinct),
        "rule": "one evaluation = one rule instance (a construct of the "
                "repository matched by a rule slot) decided on the current "
                "tree; distinct = distinct (rule, function, instance) keys "
                "with a non-empty matched statement or verdict detail; in "
                "the thorough tier each mutant / benign twin of the "
                "self-test adds one evaluation",
        "samples": samples,
        "analysed": analysed,
        "exhaustive": True,
        "checker_cmd": f"./check {prop} --tier {tier}",
        "trusted_base": [
            "CPython ast gives the program the interpreter would run",
            "name/import/class-hierarchy resolution rules of sa/core.py and "
            "sa/callgraph.py",
            "statement CFG construction of sa/cfg.py (explicit raise/try "
            "edges only)",
        ] + list(getattr(mod, "TRUSTED", [])),
        "not_decided": list(getattr(mod, "NOT_DECIDED", [])),
        "notes": rep.notes,
    }
    if selftest is not None:
        coverage["selftest"] = {k: v for k, v in selftest.items()
                                if k != "details"}
        coverage["selftest_details"] = selftest.get("details", [])
    ev = {
        "property_id": prop, "tier": tier, "seed": seed, "level": "other",
        "coverage": coverage,
        "assumptions": list(getattr(mod, "ASSUMPTIONS", [])),
        "wall_s": round(wall, 3),
        "violations": len(res["new"]),
    }
    evidence_dir.mkdir(parents=True, exist_ok=True)
    tmp = evidence_dir / f".{prop}.json.tmp"
    tmp.write_text(json.dumps(ev, indent=1, default=str))
    tmp.replace(evidence_dir / f"{prop}.json")


if __name__ == "__main__":
    sys.exit(main())
