"""Minimal functional stand-in for janus' EventSolution (demo harness only;
never used by a check).  Implements just what tel2puml calls."""


class EventSolution:
    def __init__(self, is_branch=False, is_break_point=False, meta_data=None,
                 **kwargs):
        self.meta_data = dict(meta_data or {})
        self.previous_events = []
        self.post_events = []
        self.event_id_tuple = None

    def add_post_event(self, event):
        if event not in self.post_events:
            self.post_events.append(event)

    def add_prev_event(self, event):
        if event not in self.previous_events:
            self.previous_events.append(event)

    def add_to_post_events(self):
        for event in self.post_events:
            event.add_prev_event(self)

    def add_to_previous_events(self):
        for event in self.previous_events:
            event.add_post_event(self)

    def add_to_connected_events(self):
        self.add_to_post_events()
        self.add_to_previous_events()

    @property
    def is_start(self):
        return not self.previous_events

    @property
    def is_end(self):
        return not self.post_events
