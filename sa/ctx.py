"""Shared, lazily built analyses for one run."""
from __future__ import annotations

import ast
from typing import Optional

from . import callgraph as _cg
from .cfg import CFG
from .core import FuncInfo, Index
from .dataflow import Defs, Reaching


class Ctx:
    def __init__(self, index: Index) -> None:
        self.index = index
        self._cg: Optional[_cg.CallGraph] = None
        self._cfgs: dict[str, CFG] = {}
        self._defs: dict[str, Defs] = {}
        self._reach: dict[str, Reaching] = {}

    @property
    def cg(self) -> _cg.CallGraph:
        if self._cg is None:
            self._cg = _cg.build(self.index)
        return self._cg

    def cfg(self, fi: FuncInfo) -> CFG:
        if fi.qualname not in self._cfgs:
            self._cfgs[fi.qualname] = CFG(fi.node)
        return self._cfgs[fi.qualname]

    def defs(self, fi: FuncInfo) -> Defs:
        if fi.qualname not in self._defs:
            self._defs[fi.qualname] = Defs(fi.node)
        return self._defs[fi.qualname]

    def reach(self, fi: FuncInfo) -> Reaching:
        if fi.qualname not in self._reach:
            self._reach[fi.qualname] = Reaching(fi.node, self.cfg(fi),
                                                self.defs(fi))
        return self._reach[fi.qualname]

    def func(self, spec: str, optional: bool = False) -> FuncInfo:
        return self.index.func(spec, optional=optional)  # type: ignore
