#!/usr/bin/env python3
"""Regenerates MANIFEST.json from the per-property table below.  A property
whose rule module does not exist yet is listed under not_applicable with the
reason "not built yet" so the manifest is valid at every commit."""
import json
import os
import subprocess
import sys

HERE = os.path.dirname(os.path.dirname(os.path.abspath(__file__)))

TECH = {
    "C01": "call-graph effect closure + CFG dominance (producer-before-"
           "consumer markings), constant-table agreement, def-use pairing",
    "C04": "typestate (cache-coherence) rule over every write to the "
           "protected attribute, writer/reader table agreement, parameter "
           "alias tracking along the call chain, ownership (copy) rule",
    "C05": "constant-table extraction checked against a lexicon learned from "
           "the repository's own .puml corpus; must-pass-through on the CFG "
           "for placeholder sinks; taint of the label value",
    "C07": "path-condition rule on the SCC loop, def-use + ownership "
           "(may-alias escape) rules on the loop-extraction orchestration, "
           "writer/reader set-dominance on the Loop record's fields",
    "C08": "loop-carried accumulator dataflow, emptiness lattice on "
           "list-of-lists, def-use field pairing, recursion-scheme rule",
    "C09": "taint of the hash argument, SQLAlchemy builder abstract "
           "interpretation to normal forms, finite-ordering evaluation of "
           "the extracted window predicate, paging arithmetic def-use",
    "C10": "three-point abstract domain (None / empty / id) for the root "
           "classification sites, who-may-call dominance in the call graph, who-may-mutate "
           "enumeration on the pending list, exception-handler CFG rule, "
           "def-use + dominance skeleton of the duplicate filter",
    "C11": "CFG dominance of cleaning over use, SQLAlchemy builder abstract "
           "interpretation (frame condition on DELETE/UPDATE), finite-"
           "ordering evaluation of the window predicate, sibling cross-check",
    "C12": "sort-key/group-key agreement from the query normal form, "
           "lazy-iterator typestate along the call chain, lexical session "
           "scope rule",
    "C13": "exception-handler CFG rule (per-record skip), field-table "
           "agreement, annotation-driven str-vs-sequence traversal rule (CFG "
           "dominance of the string case), in-place-mutation rule on the "
           "extracted record",
    "C14": "single-consumer rule on the dispatcher CFG, key-table agreement "
           "between saver/loader/types, exhausted-generator typestate",
    "C15": "enumeration of the persistent write set via the SQLAlchemy "
           "abstract interpreter; per-write re-run-safety obligations "
           "(delete-before-insert dominance, link rows follow node deletes)",
    "C16": "abstract interpretation of time arithmetic over linear forms "
           "with exact rationals, a float-exactness kind and an interval "
           "error bound; string-splitting semantics for the ISO text",
}

TEXT = {
    "C01": "Structural necessary conditions of acceptance: every annotation "
           "the diagram builder consumes is produced on every path before it "
           "is consumed, the operator vocabulary is total along the hand-off "
           "tables, ingestion pairs successors/predecessors correctly, the "
           "dummy start is always added, every phase reaches every loop body, "
           "the phases after ingestion run on a deep copy of the model "
           "(may-alias analysis), event-type lists reach the multiset they "
           "are compared with without losing repetitions, every job of the "
           "stream is ingested, the gate tree is translated totally, in-/out- "
           "evidence is read and written in the same direction, the exit "
           "fan-out of a loop is recorded before its edges are cut; effect "
           "tables in name-free role expressions for the untested pv2puml "
           "half: loop-boundary evidence (dummy start / end, loop node, "
           "rewired parent, break filter), gate tree -> node logic, logic "
           "block state, merge validation against predecessor sets, "
           "lock-step reshaping of the per-path lists and index maps, the "
           "multiset observation, the dispatch of the main walk loop and of "
           "the merge-point handler (loop-carried state described by its "
           "value on loop entry), the break filter acts only on events of "
           "the loop (defect D9 found and repaired), the neighbourhood / "
           "reachability helpers and the definition of the loop components "
           "(which set from which, under which case split), the visiting "
           "order of the components, the pruned set of a loop body is final, the "
           "dictionary saved is the dictionary updated (shared with C04), "
           "next-path / merge-point handlers "
           "(which value is returned under which condition), no crossed "
           "positional hand-off, faithful records (attributes assigned "
           "before they are read along the constructor chain, parameters "
           "stored under their own names, property guards), per-direction "
           "containers of model nodes, kill edges, event graph -> node graph, "
           "ingestion of the dummy start, partial merges, the dummy-break "
           "push-down (shared with C05). Decides the "
           "plumbing, not the heuristics' language inclusion."
           " Session 5: every gate tree handed out went through mining, reduction and the repeat marker (R1.31).",
    "C04": "Decides the four structural premises that make chunked learning "
           "equal one-shot learning at model level: stale-flag typestate on "
           "every write of the successor sets, symmetric total "
           "(de)serialisation, set-union accumulation of value objects, the "
           "saved dict is the updated dict and derived phases work on a "
           "copy, every graph of a stream is ingested with its dummy start "
           "link, every flag-guarded cache is marked stale by every write, "
           "the model-file classes pass names through unchanged, the "
           "observation keeps its counts, loaders store every record under "
           "its own key, no memoised function hands out model objects. "
           "Diagram-level "
           "equivalence is not decided."
           " Session 5: a model file that cannot be written aborts the run (R4.10).",
    "C05": "Decides totality/pairing/balance of the emission tables, that "
           "every emitted keyword occurs in the repository's own corpus with "
           "matching open/close pairing, the fixed frame, that every internal "
           "placeholder has a sink executed before the writer, and that "
           "labels are untouched event types, copies of diagram nodes carry "
           "every field, the per-path lists of a logic block rotate in "
           "lock-step, separators / block ends are connected per branch, the "
           "output file is opened only after the text exists, every created "
           "node has a fresh identity, is registered on every path and is "
           "connected, the dummy start / end of a loop body mirror the boundary "
           "evidence, pop / partial merge keep per-path lists and index maps "
           "in step (defect D7 found and repaired), node creation and the "
           "activity line, the dispatch of the main walk loop, rendering "
           "never writes to the diagram it reads, a failing placeholder sink "
           "aborts the conversion (no swallowing handler), the dummy-break "
           "push-down beneath nested XOR starts, branch separators and the "
           "operator writer, lonely merge and kill flags of model nodes "
           "(shared with C01), partial merges. Block closure "
           "as a function of graph shape is not decided."
           " Session 5: shared premises - a loaded model keeps its gate trees (R5.26 = R4.1), the model a job is learned into is its own (R5.27 = R4.4), loop placeholders get distinct names (R5.28 = R7.18); the break filter does not resize the set it iterates and drops a break event only when its dummy break was inserted (defect D11 found and repaired).",
    "C07": "Decides the recursion scheme of loop extraction (every cyclic "
           "SCC replaced, body decomposed recursively on a private copy, "
           "parent rewired and pruned from its root, loop components keep "
           "their role across hand-offs, a component revised after "
           "classification is revised before any phase reads it, carving "
           "the body cuts only loop-back and boundary edges, break events are "
           "partitioned exactly between their two handlers, exit fan-out "
           "recorded before the cut, parent rewiring keeps edges and "
           "successor / predecessor sets in step, the loop node inherits the "
           "outside evidence of start, end and break events, break events "
           "connected to the exit are replaced by dummy breaks and only "
           "events of the loop count as such (defect D9 found and "
           "repaired), break handlers run before pruning, components visited "
           "in networkx's order, helper semantics, the definition table of "
           "the component classification - its correctness for every graph "
           "is NOT decided, see defect D10). "
           "Classification "
           "of loop components is value-dependent and not decided."
           " Session 5: the break filter does not resize the set it iterates and drops a break event only when its dummy break was inserted (defect D11 found and repaired).",
    "C08": "Decides the structural clauses of the sequencing rules: overlap "
           "chains compare against the running maximum end, no empty group "
           "reaches the sorter, one PV event per span with fields from the "
           "documented source, post-order linking skeleton, ordering keys "
           "(members sorted before groups, groups keyed by their first "
           "member), both sequencers work on the prior-information groups, "
           "rename rule, options forwarded from the config, every "
           "well-formed trace of a stream is sequenced, the end time is "
           "rendered as the UTC instant it denotes.",
    "C09": "Decides that the shape hash sees span types and structure only "
           "with sibling order normalised, whole trees are fetched per "
           "batch, paging tiles the root table, one representative per "
           "(name, hash), and the window predicate equals the specification "
           "on all orderings of start<=end against the bounds."
           " Session 5: every hash row computed for a page is inserted (R9.8); only save_data moves the bounds the candidate window is computed from (R9.10 = R11.8).",
    "C10": "Decides the structure that makes ingestion idempotent: unique "
           "key, every insert path passes the duplicate-recovering wrapper, "
           "handler shape, final flush, threshold, the pending list keeps "
           "arrival order (who-may-mutate), filter skeleton (first "
           "occurrence kept, stored ids looked up on every path to the "
           "retry, links rebuilt from the survivors), record/link field "
           "mapping incl. agreement of the link guard with the stored "
           "parent id."
           " Session 5: which spans are roots is decided alike (None / empty / real parent id, three-point domain) by the stored record, the link guard, the link rebuild and every reader (R10.7); each raw insert is one transaction (R10.3).",
    "C11": "Decides that cleaning dominates every use, deletes whole traces "
           "only, selects dangling parents correctly, the window deletion is "
           "the complement of 'some span starts or ends inside' on all "
           "orderings, name propagation from the root row, no orphan links, "
           "the window's ends are the min start / max end over every saved "
           "span and nothing else moves them, no phantom parent link."
           " Session 5: root classification on the three-point domain (R11.9); span and link are queued and flushed together (R11.10 = R10.5).",
    "C12": "Decides sort-key = group-key agreement (incl. collation), in-order consumption of "
           "nested lazy groups along every consumer chain (stream variables "
           "identified by how they are bound), a broken trace is skipped "
           "without ending the stream, session scope of yields, filter "
           "algebra, child-link joins on a column that is a key on its own, one "
           "name per trace before grouping, the row stream is one ordered "
           "query."
           " Session 5: root classification on the three-point domain (R12.9); span and link are queued and flushed together (R12.10 = R10.5).",
    "C13": "Only the skip/validation clause: a record that fails validation "
           "is skipped per record without aborting the stream, the three "
           "field tables agree and the event model neither rejects nor "
           "rewrites a record they accept, exactly-one-of validators, a "
           "yielded span is "
           "the one built from the current record, the input stream is never "
           "rewound between two yields, single-pass parameters are traversed "
           "once, file iteration skeleton; and one "
           "structural clause of the translation: every alternative of a "
           "field spec binds a jq variable of its own from its own paths. "
           "Agreement of the "
           "generated jq program with the documented flattening is NOT "
           "decided (needs execution)."
           " Session 5: the span is built from the jq output untouched (R13.10); a mapping value that may be a bare string is never traversed as a sequence of characters (R13.11).",
    "C14": "Decides the plumbing: one learner fed by either arm with the "
           "same model arguments, save keys = load keys = type fields, "
           "values survive JSON (writer and reader agree on the encoding) and "
           "the loader's validation model passes them through unchanged, a record is rejected only for a missing key, "
           "an exhausted generator never reaches the learner, the mapping "
           "config reaches saver and loader, file listings take paths "
           "literally, a loaded event is the transformed record itself, a "
           "job file that cannot be written aborts the export (no swallowing "
           "handler around the save).",
    "C15": "Enumerates every persistent write a run performs and decides a "
           "re-run-safety obligation for each (hash rows cleared before "
           "insert, link rows deleted with their nodes, run-time tables "
           "temporary, inserts behind the duplicate wrapper whose recovery is "
           "complete, no reset on the no-ingest arm, files opened for "
           "overwrite, the time window derives from this run's ingestion "
           "only)."
           " Session 5: a run on an existing store applies the same cleaning and renaming steps (R15.9 = R11.1); the trim and the candidate window use one predicate (R15.10 = R11.4 / R11.6).",
    "C16": "Decides component accounting of both conversions over S seconds "
           "+ F microseconds (+ R sub-microsecond ns on the ns side, D "
           "fraction digits on the string side): each component contributes "
           "exactly once at the right scale, no inexact float reaches the ns "
           "result, the float error of ns->seconds stays below half a "
           "microsecond, seconds and microseconds are rounded together, UTC "
           "zone, fixed-width order-preserving format that the reader "
           "parses, no memoisation on datetime equality, a hand-rolled memo "
           "table is keyed by everything its value depends on."
           " Session 5: values a converter remembers between calls are updated together (R16.4).",
}

NOTE = ("Static analysis only (ast over /repo's working tree, nothing "
        "imported or executed). The tree is first brought to a normal form "
        "by behaviour-preserving rewrites (parameter / function names "
        "alpha-normalised to the pinned signatures, keyword arguments of "
        "package calls positionalised, new single-use helpers inlined). "
        "Trusted: CPython's parser, the name/class "
        "resolution rules of sa/core.py + sa/callgraph.py, the CFG of "
        "sa/cfg.py, and the API semantics tables of sa/sqlabs.py / "
        "sa/linform.py. Decides the stated structural clauses, not the "
        "run-time behaviour.")

NA = {
    "C02": "Language equality of the output of a process-mining heuristic "
           "(OR-vs-AND discrimination, weighted cover, merge-point choice) is "
           "a function of run-time values; no clause beyond the plumbing "
           "claimed under C01/C05 is visible in the shape of the code, and "
           "no sound abstraction of pm4py's inductive miner is in reach of "
           "static analysis.",
    "C03": "Order/hash-seed independence concerns iteration order of "
           "set/dict containers keyed by per-run uuid hashes flowing through "
           "a walk with rotation counters; a may-analysis finds dozens of "
           "order-sensitive sites and cannot discharge them (equivalence of "
           "resulting languages is not a shape property). The one structural "
           "premise (set-union accumulation) is checked as R4.3.",
    "C06": "Soundness/exactness of the gate tree over all small outcome-set "
           "families is a property of pm4py's discover_process_tree_inductive "
           "composed with value-dependent post-processing; deciding it needs "
           "enumeration by execution (another technique family). The "
           "operator-table link is checked as R1.2.",
}

DESIGN_REF = {p: f"DESIGN.md section 4, {p}" for p in TEXT}


def main() -> None:
    checks, na = [], []
    for pid in sorted(TEXT):
        if not os.path.exists(os.path.join(HERE, "sa", "rules",
                                           f"{pid.lower()}.py")):
            na.append({"property_id": pid,
                       "reason": "claimed in DESIGN.md but the check is not "
                                 "built yet at this commit"})
            continue
        checks.append({
            "property_id": pid,
            "quick_cmd": f"./check {pid} --tier quick",
            "thorough_cmd": f"./check {pid} --tier thorough",
            "evidence_file": f"evidence/{pid}.json",
            "replay_cmd_template": f"./check {pid} --tier quick --replay "
                                   "{path}",
            "engine": "sa",
            "level_claimed": {"category": "other", "text": TEXT[pid],
                              "design_ref": DESIGN_REF[pid]},
            "level_note": NOTE,
            "technique": "static analysis: " + TECH[pid],
        })
    for pid, reason in sorted(NA.items()):
        na.append({"property_id": pid, "reason": reason})
    fixes = subprocess.run(
        ["git", "-C", "/repo", "log", "--format=%h %s", "--grep=^fix:"],
        capture_output=True, text=True).stdout.strip().splitlines()
    manifest = {
        "version": 1,
        "setup_cmd": "/venv/bin/python -m compileall -q sa >/dev/null 2>&1 "
                     "|| python3 -m compileall -q sa",
        "hooks": {
            "guard": "XTUML_OTEL2PUML_VERIF",
            "enable": "none needed: the checks never build or run the "
                      "repository, they parse /repo's working tree",
            "baseline_off_cmd": "cd /repo && /venv/bin/python -m pytest -ra "
                                "-q -p no:cacheprovider --timeout=900 "
                                "--continue-on-collection-errors",
            "source_commits": [],
            "add_only": True,
        },
        "engines": [{
            "name": "sa", "path": "sa/",
            "serves_properties": [c["property_id"] for c in checks],
            "kind_free_text": "repository-specific static analysis in pure "
                              "Python (ast): index, resolved call graph, "
                              "statement CFG + dominators, def-use, effect "
                              "channels, SQLAlchemy-builder and time-"
                              "arithmetic abstract interpreters, constant "
                              "tables, mutation self-test",
        }],
        "checks": checks,
        "not_applicable": na,
        "notes": "No hooks in /repo. Unguarded repairs of genuine defects "
                 "(fix: commits): " + "; ".join(fixes) +
                 ". See known_findings.json and DESIGN.md section 5.",
    }
    with open(os.path.join(HERE, "MANIFEST.json"), "w") as f:
        json.dump(manifest, f, indent=1)
        f.write("\n")
    print(f"MANIFEST.json: {len(checks)} checks, {len(na)} not applicable")


if __name__ == "__main__":
    sys.exit(main())
